"""C24 - Sequential files return what was written.

A case is a script of operations on one disk file (C:T.DAT, file number 1) in a real Session on a temporary
native mount.  The same script is evaluated by the Coq model (model/TextFile.v: run_script) and both
outputs must agree op by op; the oracle reads the property directly off the implementation's behaviour.

ops:  ['O'] ['A'] ['I'] ['C']                      OPEN FOR OUTPUT / APPEND / INPUT AS 1, CLOSE 1
      ['W', [item..]]   item = ['s', [bytes]] | ['n', sigil, literal, text]      WRITE#1, ...
      ['P', [bytes]]                               PRINT#1, L$
      ['IN', 'sigils']                             INPUT#1, one variable per sigil ($ % ! #)
      ['LI'] ['EOF'] ['LOF'] ['LOC']               LINE INPUT#1,L$ / EOF(1) / LOF(1) / LOC(1)
      ['RAW', [bytes]]  ['DISK']                   harness: put bytes on disk / dump the disk file
"""
import json
import os

from vlib import core
from harness import common

FIXES = os.path.join(core.VERIF, 'fixes')
MY_KNOWN = ('K3', 'K24a', 'K24b')

# Known findings are merged into known_findings.json by the coordinator; until then read our own records so
# that the check behaves as it will after the merge (nothing is suppressed that is not recorded in fixes/).
_orig_load_known = core.load_known


def _load_known_with_c24():
    ks = list(_orig_load_known())
    have = set(k.get('id') for k in ks)
    for kid in MY_KNOWN:
        p = os.path.join(FIXES, kid + '.json')
        if kid not in have and os.path.exists(p):
            ks.append(json.load(open(p)))
    return ks


if getattr(core.load_known, '__name__', '') != '_load_known_with_c24':
    core.load_known = _load_known_with_c24

# OPEN statements naming the other file S.DAT that must be refused: [statement, model op]; O/A/I need #1 in use
REFUSED_OPEN = {
    'O': ['OPEN "S.DAT" FOR OUTPUT AS 1', 'OpOpenO'], 'A': ['OPEN "S.DAT" FOR APPEND AS 1', 'OpOpenA'],
    'I': ['OPEN "S.DAT" FOR INPUT AS 1', 'OpOpenI'],
    'Q': ['OPEN "Q",#1,"S.DAT"', '(OpRefused RModeLetter)'],
    'L': ['OPEN "S.DAT" FOR OUTPUT AS 1 LEN=0', '(OpRefused RRecLen)'],
    'W': ['OPEN "S.DAT" FOR APPEND ACCESS WRITE AS 1', '(OpRefused RAppendWrite)'],
    'R': ['OPEN "S.DAT" FOR OUTPUT ACCESS READ AS 1', '(OpRefused RAccess)'],
    '0': ['OPEN "S.DAT" FOR OUTPUT AS 0', '(OpRefused RNumZero)'],
    '9': ['OPEN "S.DAT" FOR APPEND AS 9', '(OpRefused RNumBig)'],
    '256': ['OPEN "S.DAT" FOR OUTPUT AS 256', '(OpRefused RNumRange)'],
}
ANYTIME_REFUSALS = ['Q', 'L', 'W', 'R', '0', '9', '256']

SPECIAL = [0, 10, 13, 26, 32, 34, 44, 9, 255, 48, 49, 45, 46, 69]
NUM_LITS = {
    '%': ['0', '1', '-1', '32767', '-32768', '255', '-256', '10', '12345'],
    '!': ['0!', '1.5', '-2.25', '1E+10', '-1E-10', '.3333333', '3.402823E+38', '1.401298E-38', '16777216',
          '1234567', '.5', '-.001', '1E+7', '9999999', '1.000001'],
    '#': ['0#', '1D+20', '-1D-20', '.1#', '1.234567890123456D-05', '3.14159265358979#', '1D+16',
          '99999999999999#', '1.5#', '-2.5D+37', '1D-38', '123456789.123#'],
}


def _bl(b):
    return '[' + ';'.join(str(x) for x in b) + ']'


def compress(res):
    """outputs longer than 6 values are compared through length + 61-bit polynomial hash (model: compress)"""
    if len(res) <= 6:
        return res
    h = 0
    for v in res:
        h = (h * 1000003 + v + 3) % 2305843009213693951
    return [7, len(res), h]


def _strip_eof(b):
    return b[:-1] if b[-1:] == b'\x1a' else b


class C24(core.Check):
    ID = 'C24'
    GEN = ['gen_textfile']
    PROPS = 'props/C24.v'
    MODEL_IMPORTS = ['gen.Gen_textfile', 'model.TextFile']
    ALLOWED_AXIOMS = set()
    QUICK_CASES = 600
    THOROUGH_CASES = 9000
    TRUSTED = ['hand model model/TextFile.v of TextFileBase/InputMixin/TextFile/NewlineWrapper/open_stream and of '
               'WRITE#, PRINT# of one string, INPUT#, LINE INPUT#, EOF, LOF, LOC, tied by correspondence on a real '
               'Session with a native disk mount (op-by-op agreement, INPUT# words observed at input_entry); byte '
               'classes and error numbers regenerated (gen_textfile)',
               'number formatting/parsing (to_repr / from_repr) is C07: numbers are items given by their text; '
               'the oracle compares the value read with the Python value of that text',
               'PRINT USING / SPC / TAB, text-encoding options and INPUT$ of more than one byte through the '
               'NewlineWrapper (chunk-dependent, known finding K24b: judged by the oracle only) are not modelled']
    PARTIAL = None
    RULE = ('scripts: well-formed round trips (WRITE#/INPUT#, PRINT#/LINE INPUT#, 1-3 OUTPUT/APPEND sessions, '
            'EOF/LOF/LOC probes interleaved with the reads, both soft_linefeed settings, string lengths dense at '
            '0,1,254,255), arbitrary-byte strings with mixed reads past the end and wrong-mode operations, and raw '
            'byte files dense in separators read by INPUT#/LINE INPUT#. non-trivial = at least one successful read; '
            'distinct by hash of (case, output)')
    histogram = None

    # ------------------------------------------------------------------ cases
    def corpus(self):
        x255, x254 = [120] * 255, [120] * 254
        nxt = [110, 101, 120, 116]

        def rt(soft, items, **kw):
            return self.mk_rt(soft, [items], **kw)
        cs = [
            # K3 witness: WRITE#1,STRING$(255,"x"),"next" : INPUT#1,A$,B$
            rt(False, [['s', x255], ['s', nxt]]),
            rt(True, [['s', x255], ['s', nxt]]),
            rt(False, [['s', x254], ['s', nxt]]),
            rt(False, [['s', x255]]),
            # K24a witness: PRINT#1,STRING$(255,"x") : PRINT#1,"next" : three LINE INPUT#
            self.mk_rtl(False, [[x255, nxt]]),
            self.mk_rtl(True, [[x254, nxt]]),
            rt(False, [['s', []], ['s', [32, 97, 32]], ['s', [44, 44]], ['n', '%', '-5', '-5'],
                       ['n', '!', '2.5', '2.5'], ['n', '#', '1D+20', '1D+20']]),
            rt(True, [['s', [97, 10, 98]], ['s', [13]], ['s', [13, 97, 10]], ['s', [10]]]),
            rt(False, [['s', [97, 13, 98]], ['s', [13]]]),
            # probes between the reads must not disturb them: WHILE NOT EOF(1): L=LOF(1): INPUT#1,A$ : WEND
            rt(False, [['s', [97, 98, 99]], ['n', '%', '12', '12']], rp=['EOF', 'LOF']),
            rt(True, [['s', [97, 98, 99]], ['n', '%', '12', '12']], rp=['EOF', 'LOC', 'LOF', 'EOF']),
            self.mk_rtl(False, [[[97, 98], [], [99]]], rp=['EOF', 'LOF', 'EOF']),
            self.mk_rt(False, [[['s', [97]]], [['s', [98]], ['n', '%', '7', '7']]], appends=1),
            self.mk_rtl(True, [[[97, 10, 98], [], [0, 9, 34, 44]], [[99]]], appends=1),
            self.mk_rtl(True, [[[97, 10, 13, 98], [10, 13, 10, 13, 120], []]]),
            # PRINT# with several expressions, zones, WIDTH#
            {'k': 'rtp', 'soft': False, 'ops': [['O'], ['PE', [['v', [97]], [','], ['v', [98]], [';'], ['n', '%', '1', ' 1 ']]],
                                               ['PE', [['v', [99] * 14], [','], [','], ['v', [100]]]], ['LOC'], ['C'],
                                               ['DISK'], ['I'], ['EOF'], ['LI'], ['EOF'], ['LI'], ['EOF'], ['C'], ['DISK']]},
            {'k': 'rtp', 'soft': True, 'ops': [['O'], ['WD', 20], ['PE', [['v', [97] * 8], [';'], ['v', [98] * 16], [';'],
                                                                         ['v', [97] * 8], [','], ['v', [97] * 8], [',']]],
                                              ['PE', [['v', [99] * 30]]], ['PE', []], ['C'], ['DISK'], ['I'], ['LI'],
                                              ['LI'], ['LI'], ['LI'], ['LI'], ['LI'], ['EOF'], ['C'], ['DISK']]},
            # INPUT$: exact bytes, Input past end at 1A; K24b witness (default mode, 3 bytes over a CR LF)
            {'k': 'ins', 'soft': True, 'ops': [['RAW', [97, 13, 10, 34, 44, 32, 10, 98, 26, 99]], ['I'], ['IS', 3], ['LOC'],
                                              ['IS', 1], ['IS', 4], ['EOF'], ['IS', 1], ['IS', 1], ['C'], ['DISK']]},
            {'k': 'ins', 'soft': False, 'ops': [['RAW', [97, 13, 10, 98, 99]], ['I'], ['IS', 3], ['C'], ['DISK']]},
            {'k': 'ins', 'soft': False, 'ops': [['RAW', [13, 10] * 70 + [97]], ['I']] + [['IS', 1], ['LOC']] * 70 +
                                             [['EOF'], ['LOC'], ['C'], ['DISK']]},
            # seed C24f: #1 open on T.DAT, OPEN "S.DAT" FOR OUTPUT / APPEND AS #1 is refused and must not touch S.DAT
            {'k': 'any', 'soft': False, 'ops': [['RAW2', [34, 97, 34, 13, 10, 26]], ['O'], ['W', [['s', [98]]]], ['XO', 'O'],
                                              ['C'], ['I'], ['XO', 'A'], ['IN', '$'], ['XO', 'I'], ['C'], ['DISK'], ['DISK2']]},
            {'k': 'any', 'soft': True, 'ops': [['RAW2', [34, 97, 34, 13, 10, 26]]] + [['XO', x] for x in ANYTIME_REFUSALS] +
                                             [['O']] + [['XO', x] for x in ANYTIME_REFUSALS] + [['P', [97]], ['C'], ['I']] +
                                             [['XO', x] for x in ANYTIME_REFUSALS] + [['LI'], ['C'], ['DISK'], ['DISK2']]},
            # outside the class: quotes, NUL, 1A, LF (default mode), leading CR LF (soft mode)
            self.mk_any(False, [['W', [['s', [97, 34, 98]], ['s', [0, 97, 0]], ['s', [97, 26, 98]], ['s', [97, 10, 98]]]]],
                        ['IN', '$'], 6),
            self.mk_any(True, [['W', [['s', [13, 10, 97]], ['s', [97, 10]]]], ['P', [97, 10]], ['P', [13, 98]]],
                        ['IN', '$'], 6),
            {'k': 'raw', 'soft': True, 'ops': [['RAW', [32, 10, 13, 34, 97, 34, 32, 32, 44, 49, 32, 50, 13, 10, 10, 13, 120, 26, 121]],
                                             ['I'], ['EOF'], ['IN', '$'], ['IN', '%'], ['IN', '#'], ['LOC'], ['LI'],
                                             ['EOF'], ['IN', '$'], ['LI'], ['LOF'], ['C'], ['DISK']]},
            {'k': 'raw', 'soft': False, 'ops': [['RAW', [97, 13, 10, 10, 98, 10, 13, 99]], ['I'], ['LI'], ['LI'],
                                              ['LI'], ['LI'], ['LI'], ['EOF'], ['LOC'], ['C'], ['DISK']]},
            {'k': 'raw', 'soft': False, 'ops': [['I'], ['O'], ['O'], ['IN', '$'], ['EOF'], ['LOF'], ['LOC'],
                                              ['P', [97]], ['C'], ['W', [['s', [97]]]], ['IN', '$'], ['A'],
                                              ['LOF'], ['C'], ['DISK'], ['A'], ['C'], ['DISK']]},
        ]
        return cs

    @staticmethod
    def read_phase(reads, probes, rp):
        """ops of the reading session: OPEN FOR INPUT, then probes (EOF/LOF/LOC) before the first and after every
        read.  rp: None = EOF after everything (+ LOF, LOC at the end when probes); a list of probe names = the
        same probes in every slot; a list of len(reads)+1 lists = the probes of each slot."""
        n = len(reads)
        if rp is None:
            slots = [['EOF'] for _ in range(n + 1)]
            if probes:
                slots[-1] = ['EOF', 'LOF', 'LOC']
        elif rp and isinstance(rp[0], list):
            slots = [list(x) for x in rp]
            assert len(slots) == n + 1
        else:
            slots = [list(rp) for _ in range(n + 1)]
        ops = [['I']] + [[p] for p in slots[0]]
        for rd, sl in zip(reads, slots[1:]):
            ops.append(rd)
            ops += [[p] for p in sl]
        return ops + [['C'], ['DISK']]

    def mk_rt(self, soft, sessions, appends=None, probes=True, rp=None):
        """sessions: list of list-of-statements; first is OUTPUT, the others APPEND."""
        if sessions and sessions[0] and not isinstance(sessions[0][0][0], list):
            sessions = [[st] for st in sessions]
        ops = []
        for i, sess in enumerate(sessions):
            ops.append(['O'] if i == 0 else ['A'])
            for st in sess:
                ops.append(['W', st])
                if probes:
                    ops.append(['LOF'])
            if probes:
                ops.append(['LOC'])
            ops += [['C'], ['DISK']]
        reads = [['IN', '$' if it[0] == 's' else it[1]] for sess in sessions for st in sess for it in st]
        return {'k': 'rt', 'soft': soft, 'ops': ops + self.read_phase(reads, probes, rp)}

    def mk_rtl(self, soft, sessions, appends=None, probes=True, rp=None):
        ops = []
        for i, sess in enumerate(sessions):
            ops.append(['O'] if i == 0 else ['A'])
            for l in sess:
                ops.append(['P', l])
            if probes:
                ops += [['LOF'], ['LOC']]
            ops += [['C'], ['DISK']]
        reads = [['LI'] for sess in sessions for l in sess]
        return {'k': 'rtl', 'soft': soft, 'ops': ops + self.read_phase(reads, probes, rp)}

    # the documented classes, as Python predicates (255 bytes allowed: K3 / K24a are judged by the oracle)
    @staticmethod
    def str_in_class(soft, b):
        if len(b) > 255 or any(x in (34, 0, 26) or not 0 <= x < 256 for x in b):
            return False
        return b[:2] != [13, 10] if soft else 10 not in b

    @staticmethod
    def line_in_class(soft, b):
        if len(b) > 255 or any(x == 26 or not 0 <= x < 256 for x in b):
            return False
        if not soft:
            return 10 not in b and 13 not in b
        # soft_linefeed: a CR only directly after an LF; the last byte is not LF
        return all(b[i] != 13 or (i > 0 and b[i - 1] == 10) for i in range(len(b))) and b[-1:] != [10]

    def parse_rt(self, case):
        """(sessions, probes) of a well-formed round-trip case whose values are in the documented class, else
        None (the round-trip oracle and the shrinker only apply to those)."""
        try:
            soft, rt = case['soft'], case['k'] == 'rt'
            ops = [o for o in case['ops'] if o[0] not in ('RAW2', 'DISK2', 'XO')]
            sessions = []
            for o in ops:
                if o[0] in ('O', 'A'):
                    sessions.append([])
                elif o[0] == ('W' if rt else 'P'):
                    sessions[-1].append(o[1])
                elif o[0] == 'I':
                    break
            i0 = [i for i, o in enumerate(ops) if o[0] == 'I'][-1]
            probes = any(o[0] in ('LOF', 'LOC') for o in ops[:i0])
            rp = [[]]
            for o in ops[i0 + 1:]:
                if o[0] in ('EOF', 'LOF', 'LOC'):
                    rp[-1].append(o[0])
                elif o[0] in ('IN', 'LI'):
                    rp.append([])
            rebuilt = (self.mk_rt if rt else self.mk_rtl)(soft, sessions, probes=probes, rp=rp)
            if not sessions or rebuilt['ops'] != ops:
                return None
            for sess in sessions:
                for st in sess:
                    if rt:
                        for it in st:
                            if it[0] == 's' and not self.str_in_class(soft, it[1]):
                                return None
                            if it[0] == 'n' and (not it[3] or any(ch not in '0123456789+-.ED' for ch in it[3])):
                                return None
                        if not st:
                            return None
                    elif not self.line_in_class(soft, st):
                        return None
            return sessions, probes, rp
        except (KeyError, IndexError, TypeError, AssertionError):
            return None

    def shrink_candidates(self, case):
        """smaller cases of the same kind: round-trip cases stay well-formed and inside the class"""
        if case.get('k') == 'rtp':
            return
        if case.get('k') == 'ins':
            ops = case['ops']
            for i, o in enumerate(ops):
                if o[0] in ('IS', 'EOF', 'LOF', 'LOC'):
                    yield dict(case, ops=ops[:i] + ops[i + 1:])
            return
        if case.get('k') not in ('rt', 'rtl'):
            for c in core.Check.shrink_candidates(self, case):
                yield c
            return
        parsed = self.parse_rt(case)
        if parsed is None:
            return
        sessions, probes, rp = parsed
        rt = case['k'] == 'rt'
        mk = self.mk_rt if rt else self.mk_rtl
        # the same probes in every slot: the longest probe sequence of the original (None = EOF only)
        uni = max(rp, key=len)
        if uni == ['EOF'] or not uni:
            uni = None

        def emit(new_sessions, pr=probes, u=uni):
            new_sessions = [x for i, x in enumerate(new_sessions) if x or i == 0]
            c = mk(case['soft'], new_sessions, probes=pr, rp=u)
            if c['ops'] != case['ops'] and self.parse_rt(c) is not None:
                return c
            return None
        cands = []
        if probes:
            cands.append(emit(sessions, False))
        if uni is not None:
            cands.append(emit(sessions, probes, None))
            for k in range(len(uni)):
                cands.append(emit(sessions, probes, uni[:k] + uni[k + 1:] or None))
        for i in range(len(sessions)):
            if len(sessions) > 1:
                cands.append(emit(sessions[:i] + sessions[i + 1:]))
            for j in range(len(sessions[i])):
                def with_stmt(new):
                    sess = sessions[i][:j] + new + sessions[i][j + 1:]
                    return sessions[:i] + [sess] + sessions[i + 1:]
                cands.append(emit(with_stmt([])))
                st = sessions[i][j]
                if rt:
                    for k in range(len(st)):
                        if len(st) > 1:
                            cands.append(emit(with_stmt([st[:k] + st[k + 1:]])))
                        if st[k][0] == 's':
                            b = st[k][1]
                            for nb in (b[:len(b) // 2], b[len(b) // 2:], b[1:], b[:-1]):
                                if len(nb) < len(b):
                                    cands.append(emit(with_stmt([st[:k] + [['s', nb]] + st[k + 1:]])))
                        elif st[k][3] != '1':
                            cands.append(emit(with_stmt([st[:k] + [['n', '%', '1', '1']] + st[k + 1:]])))
                else:
                    for nb in (st[:len(st) // 2], st[len(st) // 2:], st[1:], st[:-1]):
                        if len(nb) < len(st):
                            cands.append(emit(with_stmt([nb])))
        for c in cands:
            if c is not None:
                yield c

    def mk_any(self, soft, writes, readop, nreads):
        ops = [['O']] + writes + [['C'], ['DISK'], ['I']]
        for i in range(nreads):
            ops += [readop, ['EOF']]
        ops += [['C'], ['DISK']]
        return {'k': 'any', 'soft': soft, 'ops': ops}

    # generators --------------------------------------------------------
    def g_len(self, rng):
        r = rng.random()
        if r < 0.05:
            return 255
        if r < 0.10:
            return 254
        if r < 0.35:
            return rng.choice([0, 1, 1, 2])
        if r < 0.95:
            return rng.randrange(0, 20)
        return rng.randrange(0, 256)

    def g_ok_string(self, rng, soft, allow255):
        n = self.g_len(rng)
        if n == 255 and not allow255:
            n = 254
        out = []
        for i in range(n):
            b = rng.choice(SPECIAL) if rng.random() < 0.45 else rng.randrange(256)
            if b in (34, 0, 26) or (b == 10 and not soft):
                b = rng.choice([32, 44, 13, 97, 9, 255])
            out.append(b)
        if soft and out[:2] == [13, 10]:
            out[1] = 13
        return out

    def g_ok_line(self, rng, soft, allow255):
        n = self.g_len(rng)
        if n == 255 and not allow255:
            n = 254
        out = []
        for i in range(n):
            b = rng.choice(SPECIAL) if rng.random() < 0.45 else rng.randrange(256)
            if b in (13, 26) or (b == 10 and not soft):
                b = rng.choice([32, 44, 34, 0, 97, 9, 255])
            out.append(b)
        if soft:
            # LF CR pairs inside a line survive (exact class)
            for i in range(1, len(out)):
                if out[i - 1] == 10 and rng.random() < 0.4:
                    out[i] = 13
            if out and out[-1] == 10:
                out[-1] = 32
        return out

    def g_any_string(self, rng):
        n = self.g_len(rng)
        return [rng.choice(SPECIAL) if rng.random() < 0.5 else rng.randrange(256) for _ in range(n)]

    def g_number(self, rng):
        sig = rng.choice('%!#')
        r = rng.random()
        if r < 0.5:
            lit = rng.choice(NUM_LITS[sig])
        elif sig == '%':
            lit = str(rng.choice(common.INT16_POOL + [rng.randrange(-32768, 32768)]))
        else:
            digs = rng.randrange(1, 8 if sig == '!' else 17)
            m = ''.join(rng.choice('0123456789') for _ in range(digs)).lstrip('0') or '1'
            e = rng.randrange(-30, 30)
            lit = '%s%s.%s%s%+d' % (rng.choice(['', '-']), m[:1], m[1:] or '0', 'E' if sig == '!' else 'D', e)
        return ['n', sig, lit, self.num_text(sig, lit)]

    def num_text(self, sig, lit):
        """to_repr text of a literal assigned to a variable of the given type (asked from the implementation;
        number formatting is C07's subject, here the text is an input of the model)."""
        cache = self.__dict__.setdefault('_numtext', {})
        key = sig + lit
        if key not in cache:
            values = __import__('importlib').import_module('pcbasic.basic.values')
            s = self.__dict__.get('_numsess')
            if s is None:
                s = common.new_session()
                s.start()
                self._numsess = s
            s.execute('V%s=%s' % (sig, lit))
            v = s._impl.memory.view_or_create_variable(('V' + sig).encode(), [])
            cache[key] = values.to_repr(v, leading_space=False, type_sign=False).decode('latin-1')
        return cache[key]

    def gen_cases(self, n):
        rng = self.rng
        hist = {'rt': 0, 'rtl': 0, 'rtp': 0, 'ins': 0, 'any': 0, 'raw': 0, 'soft': 0, 'len255_items': 0, 'append_sessions': 0,
                'ops': 0}
        out = []
        for i in range(n):
            soft = rng.random() < 0.5
            r = i % 10
            if r < 3:
                nsess = rng.choice([1, 1, 2, 3])
                sessions = []
                for _ in range(nsess):
                    sess = []
                    for _ in range(rng.randrange(0 if sessions else 1, 4)):
                        st = []
                        for _ in range(rng.randrange(1, 5)):
                            if rng.random() < 0.65:
                                s = self.g_ok_string(rng, soft, allow255=rng.random() < 0.5)
                                hist['len255_items'] += len(s) == 255
                                st.append(['s', s])
                            else:
                                st.append(self.g_number(rng))
                        sess.append(st)
                    sessions.append(sess)
                c = self.mk_rt(soft, sessions, probes=rng.random() < 0.7, rp=self.g_rp(rng, sessions, True))
                hist['append_sessions'] += nsess - 1
            elif r < 5:
                nsess = rng.choice([1, 1, 2, 3])
                sessions = []
                for _ in range(nsess):
                    sessions.append([self.g_ok_line(rng, soft, allow255=rng.random() < 0.5)
                                     for _ in range(rng.randrange(0 if sessions else 1, 5))])
                    hist['len255_items'] += sum(len(l) == 255 for l in sessions[-1])
                c = self.mk_rtl(soft, sessions, probes=rng.random() < 0.7, rp=self.g_rp(rng, sessions, False))
                hist['append_sessions'] += nsess - 1
            elif r < 6:
                c = self.g_rtp(rng, soft)
            elif r < 8:
                c = self.g_any(rng, soft)
            elif r < 9:
                c = self.g_raw(rng, soft)
            else:
                c = self.g_ins(rng, soft)
            if rng.random() < 0.35:
                c = self.with_refused_open(rng, c)
                hist['refused_opens'] = hist.get('refused_opens', 0) + 1
            hist[c['k']] += 1
            if c['k'] in ('rt', 'rtl'):
                i0 = [i for i, o in enumerate(c['ops']) if o[0] == 'I'][-1]
                hist['probes_between_reads'] = hist.get('probes_between_reads', 0) + sum(
                    o[0] in ('LOF', 'LOC') for o in c['ops'][i0:-4])
            hist['soft'] += soft
            hist['ops'] += len(c['ops'])
            out.append(c)
        self.histogram = hist
        return out

    def num_ptext(self, sig, lit):
        """text PRINT# writes for a number: to_repr with leading space, plus a trailing blank"""
        t = self.num_text(sig, lit)
        return (t if t.startswith('-') else ' ' + t) + ' '

    def g_pelems(self, rng, soft, end_value):
        es = []
        for _ in range(rng.randrange(0 if not end_value else 1, 6)):
            r = rng.random()
            if r < 0.6:
                n = rng.choice([0, 1, 3, 8, 13, 14, 15, 20, 27, 28, 40]) if rng.random() < 0.7 else rng.randrange(60)
                es.append(['v', [rng.choice([97, 98, 32, 44, 34, 9, 1, 200, 65]) for _ in range(n)]])
            elif r < 0.75:
                it = self.g_number(rng)
                es.append(['n', it[1], it[2], self.num_ptext(it[1], it[2])])
            if rng.random() < 0.85:
                es.append([rng.choice([';', ',', ',', ';'])])
                if rng.random() < 0.1:
                    es.append([rng.choice([';', ','])])
        if end_value:
            while es and es[-1][0] in (';', ','):
                es.pop()
            if not es:
                es = [['v', [97]]]
        return es

    def g_rtp(self, rng, soft):
        """PRINT# statements with several expressions; two thirds at WIDTH 255 (exact read-back oracle), the rest
        under a random WIDTH# (line-length oracle)"""
        ops = [['O']]
        if rng.random() < 0.35:
            ops.append(['WD', rng.choice([0, 1, 13, 14, 15, 20, 28, 40, 80, 254, 255])])
        n = 0
        for _ in range(rng.randrange(1, 5)):
            ops.append(['PE', self.g_pelems(rng, soft, True)])
            n += 1
            if rng.random() < 0.3:
                ops.append(rng.choice([['LOF'], ['LOC']]))
            if rng.random() < 0.1:
                ops.append(['WD', rng.choice([255, 255, 30, 14])])
        ops += [['C'], ['DISK'], ['I'], ['EOF']]
        for _ in range(n + rng.choice([0, 0, 1, 3])):
            ops += [['LI'], ['EOF']]
            if rng.random() < 0.3:
                ops.append(rng.choice([['LOC'], ['LOF']]))
        ops += [['C'], ['DISK']]
        return {'k': 'rtp', 'soft': soft, 'ops': ops}

    def g_ins(self, rng, soft):
        """a raw file read by INPUT$ only.  Default mode: single bytes, then at most one longer read as the last
        one (a longer read through the NewlineWrapper is chunk-dependent: K24b, judged by the oracle only)"""
        n = rng.choice([0, 1, 2, 5, 9, 20, 40, 130, 260, 300])
        pool = [13, 10, 13, 10, 26, 32, 34, 44, 0, 97, 98, 99, 255]
        raw = []
        while len(raw) < n:
            r = rng.random()
            raw += [13, 10] if r < 0.15 else [rng.choice(pool)] if r < (0.8 if n < 50 else 0.3) else [rng.choice([97, 98, 13])]
        if n >= 50:
            raw = [x for x in raw if x != 26]
        if rng.random() < 0.6:
            raw.append(26)
        ops = [['RAW', raw], ['I']]
        left = len(raw)
        for _ in range(rng.randrange(1, 12)):
            r = rng.random()
            if r < 0.25:
                ops.append(rng.choice([['EOF'], ['LOC'], ['LOF'], ['LOC']]))
                continue
            if soft:
                k = rng.choice([1, 1, 2, 3, 5, 8, 127, 128, 129, 255]) if rng.random() < 0.8 else rng.choice([0, 256, 300])
            else:
                k = 1 if rng.random() < 0.97 else rng.choice([0, 256])
            ops.append(['IS', k])
        if not soft and rng.random() < 0.6:
            ops.append(['IS', rng.choice([2, 3, 4, 5, 8, 16])])
        else:
            ops.append(rng.choice([['LOC'], ['EOF']]))
        ops += [['C'], ['DISK']]
        return {'k': 'ins', 'soft': soft, 'ops': ops}

    RP_POOL = [['EOF'], ['EOF'], ['EOF', 'LOF'], ['EOF', 'LOF', 'EOF'], ['EOF', 'LOC'], ['LOF'], ['LOC'], [],
               ['EOF', 'LOC', 'LOF', 'EOF'], ['LOF', 'EOF'], ['EOF', 'EOF', 'LOF', 'LOF']]

    def g_rp(self, rng, sessions, rt):
        """probes between the reads: None (EOF only) for a third of the cases, else a random mix per slot, LOF / LOC
        after an EOF() peek being the common pattern (WHILE NOT EOF(1): L=LOF(1): INPUT#1,... : WEND)"""
        n = sum(len(st) if rt else 1 for sess in sessions for st in sess)
        r = rng.random()
        if r < 0.3:
            return None
        if r < 0.5:
            return ['EOF', 'LOF']
        return [list(rng.choice(self.RP_POOL)) for _ in range(n + 1)]

    def with_refused_open(self, rng, c):
        """history step: another, previously written data file S.DAT; while #1 is open, OPEN "S.DAT" FOR
        OUTPUT/APPEND/INPUT AS #1 is refused (File already open) - and S.DAT is dumped at the end"""
        ops = list(c['ops'])
        opens = []
        state = None
        for i, o in enumerate(ops):
            if o[0] in ('O', 'A', 'I') and state is None:
                if o[0] != 'I' or self._exists(ops[:i + 1]):
                    state = o[0]
            elif o[0] == 'C':
                state = None
            if state is not None and o[0] not in ('RAW', 'DISK'):
                opens.append(i)
        if not opens:
            return c
        body = [rng.choice([97, 98, 13, 10, 34, 44, 49]) for _ in range(rng.choice([1, 5, 20, 130]))]
        other = body + rng.choice([[26], [26], [], [13, 10, 26]])
        ins = [(i, rng.choice('OOAAI')) for i in set(rng.choice(opens) for _ in range(rng.choice([1, 1, 2])))]
        # refusals for bad mode letter / LEN / ACCESS / file number: in any state, open or closed
        ins += [(rng.randrange(-1, len(ops)), rng.choice(ANYTIME_REFUSALS)) for _ in range(rng.choice([0, 1, 2]))]
        for i, kind in sorted(ins, key=lambda x: -x[0]):
            ops.insert(i + 1, ['XO', kind])
        return dict(c, ops=[['RAW2', other]] + ops + [['DISK2']])

    def g_any(self, rng, soft):
        ops = []
        state = 'closed'
        for _ in range(rng.randrange(4, 22)):
            r = rng.random()
            if state == 'closed':
                o = rng.choice([['O'], ['O'], ['A'], ['A'], ['I'], ['I'], ['DISK']]) if r < 0.9 else \
                    rng.choice([['EOF'], ['LOF'], ['IN', '$'], ['LI'], ['P', [97]], ['C']])
            elif state == 'out':
                if r < 0.45:
                    items = []
                    for _ in range(rng.randrange(1, 4)):
                        items.append(['s', self.g_any_string(rng)] if rng.random() < 0.75 else self.g_number(rng))
                    o = ['W', items]
                elif r < 0.6:
                    o = ['P', self.g_any_string(rng)]
                elif r < 0.72:
                    o = ['PE', self.g_pelems(rng, soft, rng.random() < 0.5)]
                elif r < 0.76:
                    o = ['WD', rng.choice([0, 1, 10, 14, 20, 28, 29, 40, 80, 255, 255, 256, -1])]
                elif r < 0.82:
                    o = rng.choice([['LOF'], ['LOC']])
                elif r < 0.87:
                    o = rng.choice([['IN', '$'], ['LI'], ['EOF'], ['O'], ['I'], ['A'], ['IS', 1], ['IS', 0]])
                else:
                    o = ['C']
            else:
                if r < 0.4:
                    o = ['IN', ''.join(rng.choice('$$$$%!#') for _ in range(rng.choice([1, 1, 1, 2, 3])))]
                    if len(o[1]) > 1:
                        o[1] = '$' * len(o[1])
                elif r < 0.6:
                    o = ['LI']
                elif r < 0.84:
                    o = rng.choice([['EOF'], ['EOF'], ['LOF'], ['LOC']])
                elif r < 0.9:
                    o = rng.choice([['W', [['s', [97]]]], ['P', [98]], ['I'], ['O'], ['WD', 40], ['WD', 300],
                                    ['PE', [['v', [97]], [',']]], ['IS', 1 if not soft else rng.choice([1, 2, 7])]])
                else:
                    o = ['C']
            ops.append(o)
            if o[0] in 'OAI' and len(o[0]) == 1 and state == 'closed':
                state = 'out' if o[0] in 'OA' else 'in'
                if o[0] == 'I' and not self._exists(ops):
                    state = 'closed'
            elif o[0] == 'C':
                state = 'closed'
        if state != 'closed':
            ops.append(['C'])
        ops.append(['DISK'])
        return {'k': 'any', 'soft': soft, 'ops': ops}

    @staticmethod
    def _exists(ops):
        return any(o[0] in ('O', 'A', 'RAW') for o in ops[:-1])

    def g_raw(self, rng, soft):
        n = rng.choice([0, 1, 2, 3, 5, 8, 13, 21, 40, 80, 300, 600])
        pool = [32, 32, 10, 13, 13, 34, 34, 44, 44, 0, 26, 97, 98, 49, 50, 46, 45, 69, 9]
        raw = []
        while len(raw) < n:
            r = rng.random()
            if r < 0.08:
                raw += [13, 10]
            elif r < 0.12:
                raw += [10, 13]
            elif r < 0.2 and n > 255:
                raw += [rng.choice([97, 32, 49])] * rng.choice([253, 254, 255, 256])
            elif r < 0.9:
                raw.append(rng.choice(pool))
            else:
                raw.append(rng.randrange(256))
        if rng.random() < 0.5:
            raw.append(26)
        ops = [['RAW', raw], ['I']]
        for _ in range(rng.randrange(2, 14)):
            r = rng.random()
            if r < 0.5:
                ops.append(['IN', rng.choice(['$', '$', '$', '%', '!', '#', '$$', '$$$'])])
            elif r < 0.65:
                ops.append(['LI'])
            elif r < 0.75:
                ops.append(['IS', rng.choice([1, 2, 3, 10, 255]) if soft else 1])
            else:
                ops.append(rng.choice([['EOF'], ['LOF'], ['LOC'], ['LOC']]))
        ops += [['C'], ['DISK']]
        return {'k': 'raw', 'soft': soft, 'ops': ops}

    # ------------------------------------------------------------------ implementation
    def run_ops(self, soft, ops):
        """Run a script on the real implementation.  Returns (encoded output, log); log[i] is a dict per op."""
        import importlib
        diskfiles = importlib.import_module('pcbasic.basic.devices.diskfiles')
        error = importlib.import_module('pcbasic.basic.base.error')
        d = common.tmpdir('c24')
        path = os.path.join(d, 'T.DAT')
        path2 = os.path.join(d, 'S.DAT')
        out, log = [], []
        calls = []
        had_own = 'input_entry' in diskfiles.TextFile.__dict__
        orig = diskfiles.TextFile.input_entry

        def recording(fself, typechar, allow_past_end, *a, **kw):
            try:
                word, c = orig(fself, typechar, allow_past_end, *a, **kw)
            except error.BASICError as e:
                calls.append(('err', e.err))
                raise
            calls.append(('ok', bytes(word), c))
            return word, c
        diskfiles.TextFile.input_entry = recording
        try:
            with common.new_session(devices={'C': d}, current_device='C:', soft_linefeed=soft) as s:
                s.start()
                errs = []
                orig_handle = s._impl._handle_error

                def handle(e):
                    errs.append(e.err)
                    return orig_handle(e)
                s._impl._handle_error = handle

                def status():
                    return [1, errs[-1]] if errs else [0]
                mode = None
                width = 255
                with core.time_limit(120):
                    for o in ops:
                        del errs[:]
                        del calls[:]
                        k = o[0]
                        rec = {'op': k}
                        if k in ('O', 'A', 'I'):
                            s.execute('OPEN "T.DAT" FOR %s AS 1' % {'O': 'OUTPUT', 'A': 'APPEND', 'I': 'INPUT'}[k])
                            res = status()
                            if res == [0]:
                                mode = k
                        elif k == 'C':
                            s.execute('CLOSE 1')
                            res = status()
                            mode = None
                        elif k == 'W':
                            names = []
                            for i, it in enumerate(o[1]):
                                if it[0] == 's':
                                    nm = 'S%d$' % i
                                    s.set_variable(nm, bytes(bytearray(it[1])))
                                else:
                                    nm = 'N%d%s' % (i, it[1])
                                    s.execute('%s=%s' % (nm, it[2]))
                                names.append(nm)
                            del errs[:]
                            s.execute('WRITE#1,' + ','.join(names))
                            res = status()
                        elif k == 'P':
                            s.set_variable('L$', bytes(bytearray(o[1])))
                            s.execute('PRINT#1,L$')
                            res = status()
                        elif k == 'PE':
                            parts = []
                            for i, e in enumerate(o[1]):
                                if e[0] == 'v':
                                    s.set_variable('P%d$' % i, bytes(bytearray(e[1])))
                                    parts.append('P%d$' % i)
                                elif e[0] == 'n':
                                    s.execute('N%d%s=%s' % (i, e[1], e[2]))
                                    parts.append('N%d%s' % (i, e[1]))
                                else:
                                    parts.append(e[0])
                            del errs[:]
                            s.execute('PRINT#1,' + ''.join(parts))
                            res = status()
                        elif k == 'WD':
                            s.execute('WIDTH #1,%d' % o[1])
                            res = status()
                            if res == [0] and mode in ('O', 'A'):
                                width = o[1]
                        elif k == 'IS':
                            s.set_variable('L$', b'')
                            s.execute('L$=INPUT$(%d,#1)' % o[1])
                            if errs:
                                res = status()
                                if mode == 'I' and not soft and o[1] > 1 and 1 <= o[1] <= 255:
                                    res = [6]
                                rec['err'] = errs[-1]
                            else:
                                v = list(bytearray(s.get_variable('L$')))
                                res = [6] if (not soft and o[1] > 1) else [0, len(v)] + v
                                rec['str'] = v
                        elif k == 'IN':
                            names = ['R%d%s' % (i, sg) for i, sg in enumerate(o[1])]
                            s.execute('INPUT#1,' + ','.join(names))
                            res = []
                            vals = [None] * len(calls)
                            for i, cl in enumerate(calls):
                                if cl[0] == 'ok':
                                    w = list(bytearray(cl[1]))
                                    c = ord(cl[2]) if cl[2] else (-1 if cl[2] is not None else -2)
                                    res += [0, c, len(w)] + w
                                else:
                                    res += [1, cl[1]]
                            if not calls:
                                res = status() if errs else [4]
                            elif errs and calls[-1][0] == 'ok':
                                rec['conv_err'] = errs[-1]
                            for i, nm in enumerate(names[:len(calls)]):
                                if calls[i][0] == 'ok' and not (rec.get('conv_err') and i == len(calls) - 1):
                                    v = s.get_variable(nm)
                                    vals[i] = list(bytearray(v)) if isinstance(v, bytes) else v
                            rec['words'] = [list(bytearray(cl[1])) if cl[0] == 'ok' else None for cl in calls]
                            rec['vals'] = vals
                        elif k == 'LI':
                            s.set_variable('L$', b'')
                            s.execute('LINE INPUT#1,L$')
                            if errs:
                                res = status()
                            else:
                                v = list(bytearray(s.get_variable('L$')))
                                res = [0, len(v)] + v
                                rec['line'] = v
                        elif k == 'EOF':
                            v = s.evaluate('EOF(1)')
                            res = status() if errs else [0, 1 if v else 0]
                            rec['v'] = None if errs else bool(v)
                        elif k == 'LOF':
                            v = s.evaluate('LOF(1)')
                            res = status() if errs else [0, int(v)]
                            rec['v'] = None if errs else int(v)
                            rec['mode'] = mode
                        elif k == 'LOC':
                            v = s.evaluate('LOC(1)')
                            if errs:
                                res = status()
                            else:
                                res = [0, int(v)]
                            rec['v'] = None if errs else int(v)
                            rec['mode'] = mode
                        elif k == 'RAW':
                            if mode is None:
                                with open(path, 'wb') as f:
                                    f.write(bytes(bytearray(o[1])))
                                res = [0]
                            else:
                                res = [4]
                        elif k == 'RAW2':
                            with open(path2, 'wb') as f:
                                f.write(bytes(bytearray(o[1])))
                            res = []
                        elif k == 'DISK2':
                            res = []
                            rec['disk2'] = list(bytearray(open(path2, 'rb').read())) if os.path.exists(path2) else None
                        elif k == 'XO':
                            # an OPEN that must be refused: file number 1 is in use; it names another file
                            s.execute(REFUSED_OPEN[o[1]][0])
                            res = status()
                        elif k == 'DISK':
                            if mode is not None:
                                res = [4]
                            elif os.path.exists(path):
                                b = list(bytearray(open(path, 'rb').read()))
                                res = [0, len(b)] + b
                                rec['disk'] = b
                            else:
                                res = [1, 53]
                        else:
                            raise ValueError('unknown op %r' % (o,))
                        rec['res'] = res
                        out += compress(res)
                        log.append(rec)
            return out, log
        finally:
            if had_own:
                diskfiles.TextFile.input_entry = orig
            else:
                del diskfiles.TextFile.input_entry
            common.rmtree(d)

    def _run_cached(self, case):
        cache = self.__dict__.setdefault('_runs', {})
        key = core.sha(case)
        if key not in cache:
            if len(cache) > 20000:
                cache.clear()
            cache[key] = self.run_ops(case['soft'], case['ops'])
        return cache[key]

    def impl(self, case):
        try:
            return self._run_cached(case)[0]
        except ValueError as e:
            if 'unknown op' in str(e):
                raise
            return self._host(case, e)
        except Exception as e:     # host exception escaping the interpreter
            return self._host(case, e)

    def _host(self, case, e):
        self.__dict__.setdefault('_runs', {})[core.sha(case)] = (common.canon_exc(e), None)
        return common.canon_exc(e)

    # ------------------------------------------------------------------ model
    @staticmethod
    def item_term(it):
        if it[0] == 's':
            return 'IStr ' + _bl(it[1])
        return 'INum ' + _bl(list(bytearray(it[3].encode('latin-1'))))

    @staticmethod
    def pelem_term(e):
        if e[0] == 'v':
            return 'PV ' + _bl(e[1])
        if e[0] == 'n':
            return 'PV ' + _bl(list(bytearray(e[3].encode('latin-1'))))
        return 'PSemi' if e[0] == ';' else 'PComma'

    def op_term(self, o):
        k = o[0]
        if k in ('O', 'A', 'I'):
            return 'OpOpen' + k
        if k == 'XO':
            return REFUSED_OPEN[o[1]][1]
        if k == 'C':
            return 'OpClose'
        if k == 'W':
            return '(OpWrite [' + ';'.join(self.item_term(it) for it in o[1]) + '])'
        if k == 'P':
            return '(OpPrint ' + _bl(o[1]) + ')'
        if k == 'PE':
            return '(OpPrintE [' + ';'.join(self.pelem_term(e) for e in o[1]) + '])'
        if k == 'WD':
            return '(OpWidth %s)' % ('(%d)' % o[1] if o[1] < 0 else '%d' % o[1])
        if k == 'IS':
            return '(OpInputStr %d%%nat)' % o[1]
        if k == 'IN':
            return '(OpInput [' + ';'.join('true' if sg == '$' else 'false' for sg in o[1]) + '])'
        return {'LI': 'OpLineInput', 'EOF': 'OpEof', 'LOF': 'OpLof', 'LOC': 'OpLoc', 'DISK': 'OpDisk'}.get(k) \
            or '(OpRaw ' + _bl(o[1]) + ')'

    def model_term(self, case):
        return '(run_script_hashed %s [%s])' % ('true' if case['soft'] else 'false', ';'.join(
            self.op_term(o) for o in case['ops'] if o[0] not in ('RAW2', 'DISK2')))

    def nontrivial(self, case, out):
        log = self._run_cached(case)[1]
        return bool(log) and any((r['op'] == 'IN' and r.get('words') and r['words'][0] is not None) or
                                 (r['op'] == 'LI' and 'line' in r) or (r['op'] == 'IS' and 'str' in r) for r in log)

    # ------------------------------------------------------------------ oracle
    @staticmethod
    def num_value(text):
        """value of a written representation, read the BASIC way without using the implementation: a text with
        an exponent letter D or more than 7 digits (leading zeros not counted) is a double, anything else a single (24-bit mantissa)."""
        import struct
        v = float(text.replace('D', 'E'))
        mant = text.split('E')[0].split('D')[0]
        ndig = len(''.join(ch for ch in mant if ch.isdigit()).lstrip('0'))
        if 'D' in text or ndig > 7:
            return v, 1e-15
        try:
            v = struct.unpack('<f', struct.pack('<f', v))[0]
        except OverflowError:
            pass
        return v, 3e-7

    @staticmethod
    def ref_bytes(o, col=1):
        """(bytes, column after) a WRITE# / PRINT# statement adds to a file of WIDTH 255: direct reading of the
        file format (values as they are, a comma pads with blanks to the next 14-column zone, a final value is
        followed by CR LF); not the Coq model"""
        def adv(col, bs):
            for b in bytearray(bs):
                if b == 13:
                    col = 1
                elif b >= 32:
                    col = 1 if col + 1 == 257 else col + 1
            return col
        if o[0] == 'P':
            out = bytes(bytearray(o[1])) + b'\r\n'
        elif o[0] == 'W':
            parts = []
            for it in o[1]:
                parts.append(b'"' + bytes(bytearray(it[1])) + b'"' if it[0] == 's' else it[3].encode('latin-1'))
            out = b','.join(parts) + b'\r\n'
        else:
            out, nl = b'', True
            for e in o[1]:
                if e[0] in ('v', 'n'):
                    out += bytes(bytearray(e[1])) if e[0] == 'v' else e[3].encode('latin-1')
                    nl = True
                else:
                    nl = False
                    if e[0] == ',':
                        c = adv(col, out)
                        out += b' ' * (14 * ((c - 1) // 14 + 1) + 1 - c)
            if nl:
                out += b'\r\n'
        return out, adv(col, out)

    def deviations(self, case):
        """Direct reading of C24 on the observed behaviour. Returns a list of (tag, message)."""
        out, log = self._run_cached(case)
        if log is None:
            return [('host', 'host exception escaped: %r' % (out,))]
        ops = case['ops']
        dev = []
        # universal: LOF = number of bytes in the file; APPEND adds after the existing content
        disk = None          # last known disk content (bytes) while closed
        col, width = 1, 255
        content = None       # expected bytes of the file open for output
        mode = None
        for o, r in zip(ops, log):
            k, res = o[0], r['res']
            if k in ('O', 'A', 'I') and res == [0]:
                mode = k
                col, width = 1, 255
                if k == 'O':
                    content = b''
                elif k == 'A':
                    content = None if disk is False else _strip_eof(disk or b'')
            elif k == 'C':
                if mode in ('O', 'A'):
                    disk = False if content is None else content + b'\x1a'      # False: unknown
                mode = None
            elif k in ('W', 'P', 'PE') and res == [0] and mode in ('O', 'A'):
                if content is not None and width == 255:
                    add, col = self.ref_bytes(o, col)
                    content = content + add
                else:
                    content = None       # line wrapping under WIDTH#: judged by the line-length check below
            elif k == 'WD' and res == [0] and mode in ('O', 'A'):
                width = o[1]
            elif k == 'RAW' and res == [0]:
                disk = bytes(bytearray(o[1]))
            elif k == 'DISK' and res[:1] == [0]:
                got = bytes(bytearray(r['disk']))
                if isinstance(disk, bytes) and got != disk:
                    dev.append(('bytes', 'file bytes are not old content (minus EOF byte) + written bytes + '
                                         'EOF byte'))
                disk = got
            elif k == 'LOF' and r.get('v') is not None:
                exp = (len(content) if content is not None else None) if mode in ('O', 'A') else (
                    len(disk) if isinstance(disk, bytes) else None)
                if exp is not None and r['v'] != exp:
                    dev.append(('lof', 'LOF=%d but the file has %d bytes' % (r['v'], exp)))
            elif k == 'LOC' and r.get('v') is not None:
                if mode in ('O', 'A') and content is not None and r['v'] != len(content) // 128:
                    dev.append(('loc', 'LOC=%d in output mode with %d bytes written' % (r['v'], len(content))))
                if mode == 'I' and isinstance(disk, bytes) and not 1 <= r['v'] <= max(1, (127 + len(disk)) // 128):
                    dev.append(('loc', 'LOC=%d outside 1..ceil(LOF/128)' % r['v']))
        # a refused OPEN (file number in use) must change nothing: the other file it names keeps its bytes
        other = None
        for o, r in zip(ops, log):
            if o[0] == 'RAW2':
                other = list(o[1])
            elif o[0] == 'XO' and r['res'] != [1, 55] and r['res'] != [0]:
                pass
            elif o[0] == 'DISK2' and other is not None and r.get('disk2') != other:
                got = r.get('disk2')
                dev.append(('refused', 'a refused OPEN ... AS #1 (file number in use) changed the file it names: '
                            '%s bytes instead of the %d written' % ('no' if got is None else len(got), len(other))))
        if case['k'] == 'rtp':
            return dev + self.dev_rtp(case, log)
        if case['k'] == 'ins':
            return dev + self.dev_ins(case, log)
        if case['k'] not in ('rt', 'rtl') or self.parse_rt(case) is None:
            return dev
        # round trip: what was written comes back, EOF false before the last item and true after
        written = []
        for o in ops:
            if o[0] == 'W':
                written += [(it, 'W') for it in o[1]]
            elif o[0] == 'P':
                written.append((o[1], 'P'))
        # the reading session: INPUT# / LINE INPUT# in any interleaving with EOF / LOF / LOC probes
        i0 = [i for i, o in enumerate(ops) if o[0] == 'I'][-1]
        n = len(written)
        idx = 0
        for j in range(i0 + 1, len(ops)):
            k, r = ops[j][0], log[j]
            if k == 'EOF':
                if r.get('v') is not (idx == n):
                    dev.append(('eof255' if any(self._is255(w) for w in written[:idx]) else 'eof',
                                'EOF is %r after %d of %d items' % (r.get('v'), idx, n)))
                continue
            if k not in ('IN', 'LI') or idx >= n:
                continue
            it, kind = written[idx]
            # once a 255-byte item has been passed the reader is out of step with the writer (K3 / K24a)
            tag = 'after255' if any(self._is255(w) for w in written[:idx]) else 'rt'
            if kind == 'W':
                if r['res'][:1] != [0] or r.get('conv_err'):
                    dev.append((tag, 'item %d: INPUT# failed with %r' % (idx, r['res'][:2])))
                elif it[0] == 's':
                    if r['vals'][0] != it[1]:
                        dev.append((tag, 'item %d: string read back differs (got %d bytes %r..)' % (
                            idx, len(r['vals'][0]), r['vals'][0][:8])))
                else:
                    (exp, rel), got = self.num_value(it[3]), r['vals'][0]
                    tol = 0 if it[1] == '%' else rel * abs(exp)
                    if not isinstance(got, (int, float)) or abs(got - exp) > tol:
                        dev.append((tag, 'item %d: number read back %r, written text %s' % (idx, got, it[3])))
            else:
                if r['res'][:1] != [0]:
                    dev.append((tag, 'line %d: LINE INPUT# failed with %r' % (idx, r['res'][:2])))
                elif r['line'] != it:
                    dev.append((tag, 'line %d read back differs (got %d bytes)' % (idx, len(r['line']))))
            idx += 1
        return dev

    def dev_rtp(self, case, log):
        """PRINT# statements with several expressions and ; , separators at WIDTH 255, each ending in a value:
        the lines LINE INPUT# returns are the lines the statements make up (values joined, commas padded to the
        next 14-column zone), whenever those lines are in the documented class; under WIDTH n no line written is
        longer than n printable characters unless a single value is."""
        ops, soft = case['ops'], case['soft']
        dev = []
        text, col, width, longest = b'', 1, 255, 0
        exact = True
        for o, r in zip(ops, log):
            if o[0] == 'WD' and r['res'] == [0]:
                width = o[1]
                exact = exact and width == 255
            elif o[0] == 'PE' and r['res'] == [0]:
                add, col = self.ref_bytes(o, col)
                text += add
                for e in o[1]:
                    if e[0] in ('v', 'n'):
                        longest = max(longest, len(e[1]) if e[0] == 'v' else len(e[3]))
        disk = [r for o, r in zip(ops, log) if o[0] == 'DISK' and 'disk' in r]
        if not disk:
            return dev
        got = bytes(bytearray(disk[0]['disk']))
        if not exact:
            wds = [i for i, o in enumerate(ops) if o[0] == 'WD']
            if wds != [1] or width < 14:
                return dev          # WIDTH changed between statements / zones wider than the line: no simple bound
            for ln in got[:-1].split(b'\r\n'):
                n = sum(b >= 32 for b in bytearray(ln))
                if n > max(width, longest) and width != 255:
                    dev.append(('width', 'a line of %d printable characters under WIDTH %d' % (n, width)))
            return dev
        if not text.endswith(b'\r\n'):
            return dev
        lines = [list(bytearray(x)) for x in text[:-2].split(b'\r\n')]
        if not all(self.line_in_class(soft, l) and len(l) <= 254 for l in lines):
            return dev
        reads = [(o, r) for o, r in zip(ops, log) if o[0] in ('LI', 'EOF') and r.get('op')]
        i0 = [i for i, o in enumerate(ops) if o[0] == 'I'][-1]
        idx = 0
        for o, r in list(zip(ops, log))[i0 + 1:]:
            if o[0] == 'EOF' and r.get('v') is not (idx == len(lines)):
                dev.append(('eof', 'EOF is %r after %d of %d lines' % (r.get('v'), idx, len(lines))))
            if o[0] == 'LI' and idx < len(lines):
                if r['res'][:1] != [0] or r.get('line') != lines[idx]:
                    dev.append(('rt', 'line %d of the PRINT# statements read back differs' % idx))
                idx += 1
        return dev

    def dev_ins(self, case, log):
        """INPUT$(n,#1) returns exactly the next n bytes of the file (CR, LF, blanks, quotes, commas included; in
        the default mode: of the newline-translated file) and Input past end when fewer than n bytes precede 1A
        or the end."""
        ops, soft = case['ops'], case['soft']
        raw = [o[1] for o in ops if o[0] == 'RAW'][-1]
        if soft:
            stream = list(raw)
        else:
            stream, last = [], None
            for b in raw:
                if not (last == 13 and b == 10):
                    stream.append(13 if b == 10 else b)
                last = b
        pos = 0
        dev = []
        for o, r in zip(ops, log):
            if o[0] == 'EOF' and r.get('v') is not None:
                if r['v'] != (pos >= len(stream) or stream[pos] == 26):
                    dev.append(('eof', 'EOF is %r at byte %d' % (r['v'], pos)))
            if o[0] == 'LOC' and r.get('v') is not None:
                # LOC = 128-byte blocks needed for the bytes consumed (at least 1); behind the NewlineWrapper the
                # raw bytes behind them, where an absorbed LF may or may not be counted yet
                if soft:
                    rp, allowed = pos, 0
                else:
                    rp, k, last = 0, pos, None
                    while k > 0 and rp < len(raw):
                        if not (last == 13 and raw[rp] == 10):
                            k -= 1
                        last = raw[rp]
                        rp += 1
                    allowed = 1 if (last == 13 and rp < len(raw) and raw[rp] == 10) else 0
                if r['v'] not in (max(1, (127 + rp) // 128), max(1, (127 + rp + allowed) // 128)):
                    dev.append(('loc', 'LOC=%d after %d bytes of the file have been read' % (r['v'], rp)))
            if o[0] != 'IS' or not 1 <= o[1] <= 255:
                continue
            win = stream[pos:pos + o[1]]
            tag = 'ins_chunk' if (not soft and o[1] > 1) else 'ins'
            if 26 in win or len(win) < o[1]:
                if r.get('err') != 62:
                    dev.append((tag, 'INPUT$(%d) at byte %d: expected Input past end, got %r' % (
                        o[1], pos, r.get('str', r.get('err')))))
                pos += win.index(26) if 26 in win else len(win)
            else:
                if r.get('str') != win:
                    dev.append((tag, 'INPUT$(%d) at byte %d returned %r, the next bytes are %r' % (
                        o[1], pos, r.get('str', r.get('err')), win)))
                pos += o[1]
        return dev

    @staticmethod
    def _is255(w):
        it, kind = w
        return (kind == 'P' and len(it) == 255) or (kind == 'W' and it[0] == 's' and len(it[1]) == 255)

    def oracle(self, case, out):
        dev = self.deviations(case)
        if not dev:
            return None
        return '%s: %s' % dev[0]

    # ------------------------------------------------------------------ known findings
    def known_match(self, finding, case, out):
        """K3: first deviation directly after (or the EOF flag at) a 255-byte quoted string written by WRITE#.
        K24a: the same for a 255-byte line written by PRINT#."""
        fid = finding.get('id')
        if fid == 'K24b':
            # default mode, INPUT$ of more than one byte, the raw bytes it covers contain CR LF or LF
            if case.get('k') != 'ins' or case.get('soft'):
                return False
            dev = self.deviations(case)
            raw = [o[1] for o in case['ops'] if o[0] == 'RAW'][-1]
            return bool(dev) and dev[0][0] == 'ins_chunk' and 10 in raw
        if fid not in MY_KNOWN or case.get('k') not in ('rt', 'rtl'):
            return False
        if (fid == 'K3') != (case['k'] == 'rt'):
            return False
        dev = self.deviations(case)
        # the 255-byte value itself must have come back; only the EOF flag after it / what follows it is off
        return bool(dev) and dev[0][0] in ('after255', 'eof255')

    def known_rerun(self, finding):
        w = finding.get('witness') or {}
        case = {'k': w.get('k'), 'soft': w.get('soft', False), 'ops': w.get('ops')}
        if finding.get('id') not in MY_KNOWN:
            return True
        if not case['ops']:
            return False
        self.__dict__.setdefault('_runs', {}).pop(core.sha(case), None)
        self.impl(case)
        return self.known_match(finding, case, None)


CHECK = C24
