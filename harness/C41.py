"""C41 - Codepage conversion round-trips."""
import collections
import unicodedata

from vlib import core
from harness import common


def _mods():
    import importlib
    cpm = importlib.import_module('pcbasic.basic.codepage')
    data = importlib.import_module('pcbasic.data.codepages')
    return cpm, data


MODES = ['ignore', 'replace', 'strict']
MODE_COQ = {'ignore': 'Ignore', 'replace': 'Replace', 'strict': 'Strict'}


def zl(l):
    return core.zl(l)


def zll(ll):
    return '[' + ';'.join(zl(x) for x in ll) + ']'


def cb(b):
    return 'true' if b else 'false'


def pieces_term(pieces):
    return '[' + ';'.join('(%s,%s)' % (zl(s), cb(f)) for s, f in pieces) + ']'


def enc_strs(strs):
    out = [len(strs)]
    for s in strs:
        if isinstance(s, bytes):
            out += [len(s)] + list(s)
        else:
            out += [len(s)] + [ord(c) for c in s]
    return out


def enc_state(conv):
    last = conv._last
    return [len(conv._buf)] + list(conv._buf) + [conv._bset, last[0] if last else -1]


def frame(l):
    return [len(l)] + l


class C41(core.Check):
    ID = 'C41'
    GEN = ['gen_codepages', 'gen_codepages_dbcs']
    PROPS = 'props/C41.v'
    MODEL_IMPORTS = ['gen.Gen_codepages', 'gen.Gen_codepages_dbcs', 'model.Codepage']
    QUICK_CASES = 1200
    THOROUGH_CASES = 6000
    TRUSTED = [
        'table dumper translate/targets/gen_codepages.py + gen_codepages_dbcs.py (imports the real loader, builds '
        'real Codepage objects, prints the tables after __init__; checks that _unicode_to_cp is the reverse of '
        '_cp_to_unicode on uniquely mapped clusters and that all table values are NFC-normal)',
        'unicodedata.normalize(NFC) is not modelled (model functions take the normalised string)',
        'hand model model/Codepage.v of _from_unicode/_split_unicode/codepoint_to_unicode and of the Converter '
        'state machine, tied by correspondence on real Codepage/Converter objects of every shipped codepage',
    ]
    RULE = ('mark cases: real Converter._mark on random byte strings (alphabet dense in lead/trail/box/preserve '
            'bytes of the page) cut at random chunk boundaries with random flush flags, box protection on/off via '
            'both the Codepage and the Converter argument, compared with the model sequence by sequence incl. the '
            'final buffer/bset/last; batch cases (one codepage each): to_unicode_list / get_converter().to_unicode / '
            'bytes_to_unicode / unicode_to_bytes(errors=ignore|replace|strict) / rows of 256 points; the ops of a '
            'batch run as ONE call history on Codepage objects private to the case (reset = new object), incl. '
            'designed histories: box runs, pending lead, then pairs led by the box byte '
            '(codepoint_to_unicode + bytes_to_unicode; every single byte of every page; every lead byte row in '
            'thorough, a sample in quick); oracle = round-trips and split/concat/chunking read directly on the '
            'implementation, exhaustive over the whole table for pages with a size op. '
            'non-trivial = some non-empty input; distinct by hash')
    histogram = None

    # ---- real objects
    def names(self):
        if not hasattr(self, '_names'):
            cpm, data = _mods()
            self._names = ['default'] + sorted(data.CODEPAGES)
        return self._names

    _live = None    # while a batch case runs: the Codepage objects of THIS case (its call history)

    def codepage(self, name, cpbox=True):
        """outside a batch case: one shared object per page (only read, and used to build Converters);
        inside a batch case: an object that belongs to the case, as good as freshly constructed"""
        if self._live is not None:
            if (name, cpbox) not in self._live:
                self._live[(name, cpbox)] = self.fresh_codepage(name, cpbox)
            return self._live[(name, cpbox)]
        cache = self.__dict__.setdefault('_cps', {})
        if (name, cpbox) not in cache:
            cache[(name, cpbox)] = self.construct(name, cpbox)
        return cache[(name, cpbox)]

    def construct(self, name, cpbox):
        cpm, data = _mods()
        dcache = self.__dict__.setdefault('_dicts', {})
        if name not in dcache:
            dcache[name] = None if name == 'default' else data.read_codepage(name)
        return cpm.Codepage(dcache[name], box_protect=cpbox)

    def fresh_codepage(self, name, cpbox):
        """Codepage.__init__ of a DBCS page costs 20-60 ms, too much for hundreds of histories: keep one
        constructed-and-never-used object per page and hand out independent copies of it (large tables of
        immutable str/bytes are copied with dict(), everything else with deepcopy)."""
        import copy
        pristine = self.__dict__.setdefault('_pristine', {})
        if (name, cpbox) not in pristine:
            cp = self.construct(name, cpbox)
            if len(cp._cp_to_unicode) <= 256:
                return cp
            flat = set(k for k, v in cp.__dict__.items() if type(v) is dict and len(v) > 64 and all(
                isinstance(a, (str, bytes)) and isinstance(b, (str, bytes)) for a, b in v.items()))
            pristine[(name, cpbox)] = (cp, flat)
        cp, flat = pristine[(name, cpbox)]
        if cp is None:
            return self.construct(name, cpbox)
        new = object.__new__(type(cp))
        for k, v in cp.__dict__.items():
            new.__dict__[k] = dict(v) if k in flat else copy.deepcopy(v)
        return new

    def dbcs_names(self):
        return [n for n in self.names() if self.codepage(n).dbcs]

    # ---- generators
    def alphabet(self, cp, preserve):
        """byte classes that drive the state machine"""
        lead = sorted(b[0] for b in cp.lead)
        trail = sorted(b[0] for b in cp.trail)
        box = sorted(set(b[0] for s in (cp._box_left + cp._box_right) for b in s))
        pres = [p[0] for p in preserve if len(p) == 1]
        return lead, trail, box, pres

    def rand_string(self, cp, preserve, n):
        rng = self.rng
        lead, trail, box, pres = self.alphabet(cp, preserve)
        boxlead = [b for b in box if b in lead] or box
        out = []
        while len(out) < n:
            r = rng.random()
            if r < 0.25 and lead:
                out.append(rng.choice(lead))
                if rng.random() < 0.8 and trail:
                    out.append(rng.choice(trail))
            elif r < 0.50 and box:
                out += [rng.choice(boxlead if rng.random() < 0.8 else box)] * rng.choice([1, 1, 2, 3, 4, 5])
            elif r < 0.58 and pres:
                out.append(rng.choice(pres))
            elif r < 0.70 and trail:
                out.append(rng.choice(trail))
            elif r < 0.85:
                out.append(rng.randrange(32, 127))
            else:
                out.append(rng.randrange(256))
        return out[:n] if rng.random() < 0.5 else out

    def rand_pieces(self, s):
        rng = self.rng
        pieces = []
        i = 0
        while i < len(s):
            k = rng.choice([0, 1, 1, 1, 2, 2, 3, 4, 5, 8, 13, 40])
            pieces.append([s[i:i + k], rng.random() < 0.12])
            i += k
        if rng.random() < 0.3:
            pieces.append([[], rng.random() < 0.5])
        if pieces and rng.random() < 0.6:
            pieces[-1][1] = True
        return pieces

    def rand_preserve(self, cp):
        rng = self.rng
        r = rng.random()
        if r < 0.35:
            return []
        pres = [[c] for c in rng.sample([7, 9, 10, 11, 12, 13, 28, 29, 30, 31], rng.randrange(1, 6))]
        if r > 0.8:
            lead, trail, box, _ = self.alphabet(cp, [])
            for pool in (lead, trail, box):
                if pool and rng.random() < 0.5:
                    pres.append([rng.choice(pool)])
            if rng.random() < 0.3:
                pres.append([])
            if rng.random() < 0.3 and lead and trail:
                pres.append([rng.choice(lead), rng.choice(trail)])
            if rng.random() < 0.3:
                pres.append([200])
        return pres

    def rand_mark(self, name=None):
        rng = self.rng
        if name is None:
            name = rng.choice(self.dbcs_names()) if rng.random() < 0.85 else rng.choice(self.names())
        cp = self.codepage(name)
        preserve = self.rand_preserve(cp)
        s = self.rand_string(cp, preserve, common.rand_len(rng, 60) if hasattr(common, 'rand_len') else rng.randrange(60))
        return {'k': 'mark', 'cp': name, 'cpbox': rng.random() < 0.6,
                'boxarg': rng.choice([None, None, False, True]),
                'preserve': preserve, 'pieces': self.rand_pieces(s)}

    def rand_ustring(self, cp, n):
        rng = self.rng
        rep = self.__dict__.setdefault('_reps', {})
        key = id(cp)
        if key not in rep:
            rep[key] = list(cp._unicode_to_cp.keys()) + list(cp._inverse_substitutes.keys())
        out = []
        for _ in range(n):
            r = rng.random()
            if r < 0.55:
                out.append(rng.choice(rep[key]))
            elif r < 0.70:
                out.append(chr(rng.randrange(32, 127)))
            elif r < 0.78:
                out.append('\0' + chr(rng.choice([0, 1, 59, 72, 133, 255, 256, 300, 0x3000])))
            elif r < 0.86:
                out.append(chr(rng.choice([0x300, 0x301, 0x308, 0x327, 0x3099])))
            elif r < 0.90:
                out.append(chr(rng.choice([0, 7, 10, 13, 127, 128, 255])))
            elif r < 0.97:
                out.append(chr(rng.randrange(0x80, 0x3000)))
            else:
                out.append(chr(rng.choice([0xD800, 0xDFFF, 0xFFFF, 0x10000, 0x10FFFF, 0x1F600])))
        return ''.join(out)

    def rand_conv_op(self, name):
        rng = self.rng
        cp = self.codepage(name)
        preserve = self.rand_preserve(cp)
        s = self.rand_string(cp, preserve, rng.randrange(40))
        api = rng.choice([0, 0, 0, 1, 2])
        op = {'op': 'conv', 'api': api, 'cpbox': rng.random() < 0.6, 'boxarg': rng.choice([None, None, False, True]),
              'preserve': preserve, 'subst': rng.random() < 0.3}
        if api == 2:
            op['s'] = s
        else:
            op['pieces'] = self.rand_pieces(s)
        return op

    def hist_ops(self, name):
        """a HISTORY of plain calls on one Codepage object: every call must behave like the first call on a
        fresh object (conversion at once does not depend on earlier conversions).  Strings that leave a
        converter in each of its states (runs of box bytes -> cases 3/4, pending lead, pairs led by a box byte)
        alternate with probes (pairs, rows of a box/lead byte, unicode_to_bytes of what came out)."""
        rng = self.rng
        cp = self.codepage(name)
        lead, trail, box, _ = self.alphabet(cp, [])
        boxlead = [b for b in box if b in lead] or box or lead or [65]
        ops = []
        n = rng.choice([2, 3, 4, 6, 8])
        cpbox = rng.random() < 0.85
        for i in range(n):
            r = rng.random()
            b = rng.choice(boxlead)
            if r < 0.35:
                s = [rng.randrange(32, 127)] * rng.choice([0, 0, 1]) + [b] * rng.choice([2, 3, 3, 4, 5, 7])
                if rng.random() < 0.3:
                    s += [rng.choice(trail or [65])]
            elif r < 0.65:
                s = [b, rng.choice([b] + (trail or [65]))] * rng.choice([1, 1, 2])
            elif r < 0.75 and lead:
                s = [rng.choice(lead)]
            elif r < 0.85:
                s = []
            else:
                s = self.rand_string(cp, [], rng.randrange(12))
            ops.append({'op': 'conv', 'api': 2, 'cpbox': cpbox, 'boxarg': rng.choice([None, None, None, False, True]),
                        'preserve': [] if rng.random() < 0.85 else [[13]], 'subst': rng.random() < 0.15, 's': s})
            if rng.random() < 0.15:
                ops.append({'op': 'row', 'pre': [b], 'subst': False})
            if rng.random() < 0.15:
                ops.append(self.rand_conv_op(name))
            if rng.random() < 0.15:
                ops.append({'op': 'u2b', 'mode': rng.choice(MODES),
                            'u': [ord(c) for c in self.rand_ustring(cp, rng.randrange(6))]})
        return ops

    def row_ops(self, name, pre):
        cp = self.codepage(name)
        ops = [{'op': 'row', 'pre': pre, 'subst': bool(cp._substitutes) and self.rng.random() < 0.5}]
        strs = []
        for b in range(256):
            u = cp._cp_to_unicode.get(bytes(pre + [b]))
            if u is not None:
                strs.append([ord(c) for c in u])
        ops.append({'op': 'u2bm', 'mode': self.rng.choice(MODES), 'strs': strs})
        return ops

    def corpus(self):
        B = lambda s, boxarg=None: {'op': 'conv', 'api': 2, 'cpbox': True, 'boxarg': boxarg, 'preserve': [],
                                    'subst': False, 's': list(s)}
        P = lambda *ps: [[list(s), f] for s, f in ps]
        mk = lambda cp, pieces, cpbox=True, boxarg=None, preserve=(): {
            'k': 'mark', 'cp': cp, 'cpbox': cpbox, 'boxarg': boxarg, 'preserve': [list(p) for p in preserve],
            'pieces': pieces}
        return [
            mk('936', P(([], True))),
            mk('936', P(([0x81], False), ([0x40], False), ([], True))),           # lead | trail across chunks
            mk('936', P(([0x81], True), ([0x40], True))),                         # flush splits the pair
            mk('936', P(([0xC4] * 7, True))),                                     # box run: cases 1,3,4
            mk('936', P(([0xC4] * 7, True)), cpbox=False),                        # no box protection
            mk('936', P(([0xC4] * 7, True)), cpbox=True, boxarg=False),           # `False or cp.box_protect`
            mk('936', P(([0xC4] * 7, True)), cpbox=False, boxarg=True),
            mk('936', P(([0x41, 0xC4, 0xC4], False), ([0x41, 0xCD, 0xCD, 0xCD, 0xC4, 0x81], False), ([0x40], True))),
            mk('936', P(([0xB0, 0xC4, 0xC4, 0xC4, 0x0D, 0xC4], True)), preserve=[[13]]),   # case 2 + preserve
            mk('936', P(([0xC4, 0xC4, 0x41, 0xC4, 0xC4, 0xC4], False)), preserve=[[13]]),  # case 3 non-lead: bset kept
            mk('932', P(([0x81, 0x0D, 0x40], True)), preserve=[[13]]),
            mk('437', P(([0xC4, 0x81, 0x40], False), ([0x0D], True)), preserve=[[13]]),    # not dbcs: stateless
            mk('949', P((list(range(0x80, 0x100)), True))),
            {'k': 'batch', 'cp': '932', 'ops': [
                {'op': 'conv', 'api': 0, 'cpbox': True, 'boxarg': None, 'preserve': [[13]], 'subst': True,
                 'pieces': P(([0x5C, 0x81], False), ([0x5C, 0x0D, 0xE0], True))},
                {'op': 'conv', 'api': 2, 'cpbox': True, 'boxarg': False, 'preserve': [], 'subst': False,
                 's': [0x5C, 0x81, 0x40, 0x80, 0xA0, 0xFD]},
                {'op': 'u2b', 'mode': 'strict', 'u': [0xA5, 0x5C, 0x3000]},
                {'op': 'u2b', 'mode': 'strict', 'u': [0x3000, 0x1F600]},
                {'op': 'u2b', 'mode': 'replace', 'u': [0x3000, 0x1F600, 0, 0x48, 0, 0x100, 0]},
                {'op': 'u2b', 'mode': 'ignore', 'u': [0x3000, 0x1F600, 0x80, 0x41]},
            ]},
            {'k': 'batch', 'cp': 'russup3', 'ops': [
                {'op': 'u2b', 'mode': 'replace', 'u': [0x44D, 0x300, 0x44D, 0x301, 0x300, 0x41]},
                {'op': 'row', 'pre': [], 'subst': False},
                {'op': 'size'},
            ]},
            {'k': 'batch', 'cp': '864', 'ops': [
                {'op': 'row', 'pre': [], 'subst': True},
                {'op': 'u2b', 'mode': 'ignore', 'u': [0x66A, 0x25, 0x66D, 0x2A]},
                {'op': 'size'},
            ]},
            {'k': 'batch', 'cp': 'default', 'ops': [{'op': 'row', 'pre': [], 'subst': False}, {'op': 'size'}]},
        ] + [
            # sibling clusters sharing a base letter (a+grave / a+acute), cluster followed by its base letter,
            # base letter followed by a foreign accent (C41_split_unicode_greedy)
            {'k': 'batch', 'cp': name, 'ops': [
                {'op': 'u2b', 'mode': m, 'u': [0x430, 0x300, 0x430, 0x301, 0x430, 0x44D, 0x301, 0x44D, 0x300,
                                               0x430, 0x308, 0x41, 0x300, 0, 0x430, 0x300]}
                for m in MODES]}
            for name in ('russup3', 'russup4ac', 'russup4na')
        ] + [
            # seeded C41d: a converter cached inside the Codepage object keeps _bset/_last across calls:
            # a box line first, then a pair led by the box byte, on the SAME Codepage object
            {'k': 'batch', 'cp': name, 'ops': [B(run), B(pair), {'op': 'reset'},
                                               B(run, boxarg=True), B(pair, boxarg=True),
                                               B(run), {'op': 'row', 'pre': [run[0]], 'subst': False}]}
            for name in ('936', '949', '950')
            for run, pair in (([0xC4] * 3, [0xC4, 0xC4]), ([0xCD] * 4, [0xCD, 0xE3]))
        ]

    def gen_cases(self, n):
        rng = self.rng
        names = self.names()
        dbcs = self.dbcs_names()
        thorough = self.tier == 'thorough'
        batches = []
        # every single byte of every page (+ exhaustive implementation sweep of the SBCS pages)
        for name in names:
            ops = self.row_ops(name, [])
            if name not in dbcs:
                ops.append({'op': 'size'})
            for _ in range(3):
                ops.append(self.rand_conv_op(name))
                ops.append({'op': 'u2b', 'mode': rng.choice(MODES),
                            'u': [ord(c) for c in self.rand_ustring(self.codepage(name), rng.randrange(12))]})
            batches.append({'k': 'batch', 'cp': name, 'ops': ops})
        # lead byte rows of the DBCS pages
        n_rows = 0
        sweep_pages = dbcs if thorough else rng.sample(dbcs, 2)
        for name in dbcs:
            cp = self.codepage(name)
            leads = sorted(b[0] for b in cp.lead)
            rows = leads if thorough else rng.sample(leads, 4)
            # a non-lead byte as prefix as well
            rows = rows + [rng.choice([b for b in range(128, 256) if b not in leads] or [65])]
            first = True
            for i in range(0, len(rows), 6):
                ops = []
                for l in rows[i:i + 6]:
                    ops += self.row_ops(name, [l])
                    n_rows += 1
                if first and name in sweep_pages:
                    ops.append({'op': 'size'})
                first = False
                batches.append({'k': 'batch', 'cp': name, 'ops': ops})
        # random converter / encoder batches
        n_rand = 160 if thorough else 24
        for i in range(n_rand):
            name = dbcs[i % len(dbcs)] if i % 4 else rng.choice(names)
            ops = []
            for _ in range(10):
                ops.append(self.rand_conv_op(name))
                ops.append({'op': 'u2b', 'mode': rng.choice(MODES),
                            'u': [ord(c) for c in self.rand_ustring(self.codepage(name), rng.randrange(16))]})
            batches.append({'k': 'batch', 'cp': name, 'ops': ops})
        # call histories on one Codepage object
        # (one case = several histories on the same page, separated by `reset` = take a new Codepage object)
        n_hist = 150 if thorough else 24
        boxy = [x for x in dbcs if any(b in self.codepage(x).lead for s_ in self.codepage(x)._box_left for b in s_)]
        for i in range(n_hist):
            name = (boxy or dbcs)[i % len(boxy or dbcs)] if i % 6 else rng.choice(names)
            ops = []
            for _ in range(8):
                ops += self.hist_ops(name) + [{'op': 'reset'}]
            batches.append({'k': 'batch', 'cp': name, 'ops': ops})
        rng.shuffle(batches)
        n_mark = max(n - len(batches), 200)
        marks = [self.rand_mark() for _ in range(n_mark)]
        # interleave the (expensive) batches evenly so that they spread over the parallel coqc shards
        out = []
        step = max(1, len(marks) // max(1, len(batches)))
        bi = 0
        for i, m in enumerate(marks):
            if i % step == 0 and bi < len(batches):
                out.append(batches[bi])
                bi += 1
            out.append(m)
        out += batches[bi:]
        hist = collections.Counter()
        for c in out:
            if c['k'] == 'mark':
                hist['mark'] += 1
                hist['mark_box_on' if (c['boxarg'] or c['cpbox']) else 'mark_box_off'] += 1
                hist['mark_pieces'] += len(c['pieces'])
                hist['mark_bytes'] += sum(len(p[0]) for p in c['pieces'])
                hist['mark_dbcs' if c['cp'] in dbcs else 'mark_sbcs'] += 1
            else:
                hist['batch'] += 1
                for op in c['ops']:
                    hist['op_' + op['op']] += 1
        hist['lead_rows'] = n_rows
        hist['pages_swept_exhaustively_on_impl'] = len(names) - len(dbcs) + len(sweep_pages)
        self.histogram = dict(hist)
        return out

    # ---- implementation
    def converter(self, name, c):
        cpm, _ = _mods()
        cp = self.codepage(name, c['cpbox'])
        return cpm.Converter(cp, tuple(bytes(p) for p in c['preserve']), c['boxarg'], c.get('subst', False))

    def impl(self, case):
        with core.time_limit(120):
            if case['k'] == 'mark':
                conv = self.converter(case['cp'], case)
                out = []
                for s, fl in case['pieces']:
                    out += enc_strs(conv._mark(bytes(s), fl))
                return out + enc_state(conv)
            out = []
            self._live = {}
            try:
                for op in case['ops']:
                    out += self.impl_op(case['cp'], op)
            finally:
                self._live = None
            return out

    def impl_op(self, name, op):
        k = op['op']
        if k == 'reset':
            if self._live is not None:
                self._live.clear()
            return []
        if k == 'conv':
            cp = self.codepage(name, op['cpbox'])
            pres = tuple(bytes(p) for p in op['preserve'])
            if op['api'] == 0:
                conv = self.converter(name, op)
                out = []
                for s, fl in op['pieces']:
                    out += enc_strs(conv.to_unicode_list(bytes(s), fl))
                return frame(out + enc_state(conv))
            if op['api'] == 1:
                conv = cp.get_converter(pres, use_substitutes=op['subst'])
                outs = [conv.to_unicode(bytes(s), fl) for s, fl in op['pieces']]
                return frame(enc_strs(outs) + enc_state(conv))
            u = cp.bytes_to_unicode(bytes(op['s']), pres, box_protect=op['boxarg'], use_substitutes=op['subst'])
            return frame([ord(c) for c in u])
        cp = self.codepage(name)
        if k == 'u2b':
            return frame(self.u2b(cp, ''.join(chr(c) for c in op['u']), op['mode']))
        if k == 'u2bm':
            out = []
            for u in op['strs']:
                out += frame(self.u2b(cp, ''.join(chr(c) for c in u), op['mode']))
            return frame(out)
        if k == 'row':
            pre = op['pre']
            look = [cp.codepoint_to_unicode(bytes(pre + [b]), use_substitutes=op['subst']) for b in range(256)]
            conv = [cp.bytes_to_unicode(bytes(pre + [b])) for b in range(256)]
            return frame(enc_strs(look) + enc_strs(conv))
        if k == 'size':
            return frame([len(cp._cp_to_unicode)])
        raise ValueError(k)

    @staticmethod
    def u2b(cp, s, mode):
        try:
            return [0] + list(cp.unicode_to_bytes(s, errors=mode))
        except Exception as e:
            return common.canon_exc(e)

    # ---- model
    def model_term(self, case):
        if case['k'] == 'mark':
            return 'op_mark "%s"%%string %s %s %s %s' % (
                case['cp'], cb(case['cpbox']), zll(case['preserve']), cb(bool(case['boxarg'])),
                pieces_term(case['pieces']))
        terms = []
        for op in case['ops']:
            k = op['op']
            if k == 'conv':
                if op['api'] == 0:
                    terms.append('op_conv t %s %s %s %s %s' % (
                        cb(op['cpbox']), zll(op['preserve']), cb(bool(op['boxarg'])), cb(op['subst']),
                        pieces_term(op['pieces'])))
                elif op['api'] == 1:
                    terms.append('op_conv_joined t %s %s %s %s' % (
                        cb(op['cpbox']), zll(op['preserve']), cb(op['subst']), pieces_term(op['pieces'])))
                else:
                    terms.append('op_b2u t %s %s %s %s %s' % (
                        cb(op['cpbox']), zll(op['preserve']), cb(bool(op['boxarg'])), cb(op['subst']), zl(op['s'])))
            elif k == 'u2b':
                terms.append('op_u2b t %s %s' % (MODE_COQ[op['mode']], zl(self.nfc(op['u']))))
            elif k == 'u2bm':
                terms.append('frame (flat_map (op_u2b t %s) %s)' % (
                    MODE_COQ[op['mode']], zll([self.nfc(u) for u in op['strs']])))
            elif k == 'row':
                terms.append('op_row t %s %s' % (zl(op['pre']), cb(op['subst'])))
            elif k == 'size':
                terms.append('op_size t')
        return '(let t := get_codepage "%s"%%string in List.concat [%s])' % (case['cp'], ';\n '.join(terms))

    @staticmethod
    def nfc(cps):
        """the model takes the NFC-normal string (unicodedata is a trusted primitive)"""
        return [ord(c) for c in unicodedata.normalize('NFC', ''.join(chr(c) for c in cps))]

    def nontrivial(self, case, out):
        if case['k'] == 'mark':
            return any(p[0] for p in case['pieces'])
        return len(case['ops']) > 0

    # ---- property oracle: direct reading on the implementation, no Coq model involved
    def oracle(self, case, out):
        with core.time_limit(300):
            if case['k'] == 'mark':
                return self.oracle_mark(case)
            # the ops of a batch are one call history on the Codepage object(s) of the case
            self._live = {}
            try:
                for op in case['ops']:
                    why = self.oracle_op(case['cp'], op)
                    if why:
                        return why
            finally:
                self._live = None
        return None

    def oracle_mark(self, case):
        whole = [b for s, _ in case['pieces'] for b in s]
        # (a) as run: everything emitted + what is still buffered = everything consumed
        conv = self.converter(case['cp'], case)
        seqs = []
        for s, fl in case['pieces']:
            seqs += conv._mark(bytes(s), fl)
        if b''.join(seqs) + conv._buf != bytes(whole):
            return 'emitted sequences + pending buffer != consumed bytes'
        if any(len(q) not in (1, 2) for q in seqs):
            return 'emitted a sequence that is not 1 or 2 bytes'
        # (b) in pieces (no flush) then flush  ==  at once with flush; flush empties the buffer
        conv1 = self.converter(case['cp'], case)
        a = []
        for s, _ in case['pieces']:
            a += conv1._mark(bytes(s), False)
        a += conv1._mark(b'', True)
        conv2 = self.converter(case['cp'], case)
        b = conv2._mark(bytes(whole), True)
        if a != b:
            return 'sequences differ between piecewise and at-once conversion'
        if b''.join(b) != bytes(whole) or conv1._buf or conv2._buf:
            return 'flushed conversion does not concatenate back to the input / buffer not empty'
        return None

    def oracle_op(self, name, op):
        k = op['op']
        if k == 'conv' and op['api'] != 2:
            self.impl_op(name, op)      # for its place in the history
            whole = [b for s, _ in op['pieces'] for b in s]
            c1 = self.converter(name, op)
            a = []
            for s, _ in op['pieces']:
                a += c1.to_unicode_list(bytes(s), False)
            a += c1.to_unicode_list(b'', True)
            c2 = self.converter(name, op)
            if a != c2.to_unicode_list(bytes(whole), True):
                return 'unicode differs between piecewise and at-once conversion'
            return None
        if k == 'reset':
            self._live.clear()
            return None
        if k == 'conv':
            # conversion at once, on an object with a history, = a fresh converter fed the string at once
            # = a fresh converter fed byte by byte then flushed; and a table point still decodes to its entry
            cp = self.codepage(name, op['cpbox'])
            s = bytes(op['s'])
            pres = tuple(bytes(p) for p in op['preserve'])
            got = cp.bytes_to_unicode(s, pres, box_protect=op['boxarg'], use_substitutes=op['subst'])
            c1 = self.converter(name, op)
            ref = c1.to_unicode(s, flush=True)
            c2 = self.converter(name, op)
            ref2 = u''.join(c2.to_unicode(s[i:i + 1]) for i in range(len(s))) + c2.to_unicode(b'', flush=True)
            if got != ref or got != ref2:
                return ('bytes_to_unicode(%r) on a Codepage object with a call history gives %r, a fresh '
                        'converter gives %r (at once) / %r (in pieces)' % (s, got, ref, ref2))
            if not pres and not op['subst'] and s in cp._cp_to_unicode and got != cp._cp_to_unicode[s]:
                return 'bytes_to_unicode(%r) is not the table entry' % (s,)
            return None
        cp = self.codepage(name)
        if k == 'row':
            pts = [bytes(op['pre'] + [b]) for b in range(256)]
            return self.roundtrips(name, cp, [p for p in pts if p in cp._cp_to_unicode])
        if k == 'size':
            return self.roundtrips(name, cp, list(cp._cp_to_unicode))
        # unicode_to_bytes: run for its place in the history
        self.impl_op(name, op)
        return None

    def preimages(self, name, cp):
        cache = self.__dict__.setdefault('_pre', {})
        if name not in cache:
            cache[name] = collections.Counter(cp._cp_to_unicode.values())
        return cache[name]

    def roundtrips(self, name, cp, points):
        pre = self.preimages(name, cp)
        for p in points:
            u = cp._cp_to_unicode[p]
            if cp.bytes_to_unicode(p) != u:
                return 'bytes_to_unicode(%r) is not the table entry' % (p,)
            b = cp.unicode_to_bytes(u)
            if cp.bytes_to_unicode(b) != u:
                return 'character %r (point %r) does not survive unicode_to_bytes/bytes_to_unicode' % (u, p)
            if pre[u] == 1 and b != p:
                return 'uniquely mapped point %r -> %r encodes back to %r' % (p, u, b)
        return None

    def shrink_candidates(self, case):
        """default list shortening (ops / pieces) plus shortening of the byte strings inside pieces"""
        for c in core.Check.shrink_candidates(self, case):
            yield c
        if case.get('k') == 'mark':
            ps = case['pieces']
            for i, (s, fl) in enumerate(ps):
                for cut in ([s[:len(s) // 2], s[len(s) // 2:]] if len(s) > 1 else []) + \
                           [s[:j] + s[j + 1:] for j in range(len(s))][:12]:
                    d = dict(case)
                    d['pieces'] = ps[:i] + [[cut, fl]] + ps[i + 1:]
                    yield d
            if case['preserve']:
                d = dict(case)
                d['preserve'] = []
                yield d

    def extra_search(self, budget_s):
        """exhaustive round-trip sweep of every page on the implementation"""
        import time
        t0 = time.time()
        for name in self.names():
            if time.time() - t0 > budget_s:
                return
            cp = self.codepage(name)
            for p in cp._cp_to_unicode:
                why = self.roundtrips(name, cp, [p])
                if why:
                    pfx, last = list(p[:-1]), p[-1]
                    case = {'k': 'batch', 'cp': name, 'ops': [{'op': 'row', 'pre': pfx, 'subst': False}]}
                    yield case, self.impl(case), why
                    return


CHECK = C41
