"""Generate MANIFEST.json from checks.json (the hand-maintained registry of claimed properties)."""
import json
import os
import sys

VERIF = os.path.dirname(os.path.dirname(os.path.abspath(__file__)))


def main():
    reg = json.load(open(os.path.join(VERIF, 'checks.json')))
    rdir = os.path.join(VERIF, 'registry')
    if os.path.isdir(rdir):
        for f in sorted(os.listdir(rdir)):
            if f.endswith('.json') and f[:-5] in reg.get('ready', []):
                reg['checks'][f[:-5]] = json.load(open(os.path.join(rdir, f)))
    props = [json.loads(l) for l in open(os.path.join(VERIF, 'properties.jsonl'))]
    ids = [p['id'] for p in props]
    checks = []
    for pid in ids:
        c = reg['checks'].get(pid)
        if not c:
            continue
        checks.append({
            'property_id': pid,
            'quick_cmd': './check %s --tier quick' % pid,
            'thorough_cmd': './check %s --tier thorough' % pid,
            'evidence_file': '/verif/evidence/%s.json' % pid,
            'replay_cmd_template': './check %s --replay {path}' % pid,
            'engine': 'coq-proof',
            'level_claimed': {'category': 'proof', 'text': c['text'], 'design_ref': c.get('design_ref', 'DESIGN.md section 7, ' + pid)},
            'level_note': c['note'],
            'technique': c.get('technique', 'Coq 8.16 theorem over an executable Gallina model; model tied to source by regeneration and/or correspondence'),
        })
    na = []
    for pid in ids:
        if pid not in reg['checks']:
            na.append({'property_id': pid, 'reason': reg.get('not_applicable', {}).get(
                pid, 'check not built yet (planned, DESIGN.md section 7); not a claim that proof cannot apply')})
    man = {
        'version': 1,
        'setup_cmd': './check --setup',
        'hooks': reg['hooks'],
        'engines': [{'name': 'coq-proof', 'path': '/verif/check', 'serves_properties': [c['property_id'] for c in checks],
                     'kind_free_text': 'Coq 8.16.1 theorems (theories/props/Cxx.v) over executable Gallina models; models regenerated from /repo by translate/py2v.py or tied by a correspondence run (model evaluated by vm_compute inside coqc vs the imported implementation)'}],
        'checks': checks,
        'notes': reg.get('notes', ''),
        'not_applicable': na,
    }
    with open(os.path.join(VERIF, 'MANIFEST.json'), 'w') as f:
        json.dump(man, f, indent=1)
    print('MANIFEST.json: %d checks, %d not_applicable' % (len(checks), len(na)))


if __name__ == '__main__':
    main()
