"""Command line of the /verif checks."""
import argparse
import importlib
import json
import os
import sys
import time

sys.path.insert(0, os.path.dirname(os.path.dirname(os.path.abspath(__file__))))
from vlib import core


def load_plugin(prop):
    mod = importlib.import_module('harness.%s' % prop)
    return mod.CHECK


def setup():
    t0 = time.time()
    os.makedirs(core.WORK, exist_ok=True)
    ok, msgs, files = core.regenerate(core.all_targets())
    for m in msgs:
        print(m)
    bad = core.forbidden_scan()
    if bad:
        print('FORBIDDEN vernacular found:', bad)
        return 1
    core.write_coqproject()
    from concurrent.futures import ThreadPoolExecutor
    files = core.coq_files()
    roots = [f for f in files if f.startswith('props/')] + files
    with ThreadPoolExecutor(max_workers=12) as ex:
        results = list(ex.map(lambda f: core.make([f], timeout=3000), roots))
    okm = all(r[0] for r in results)
    out = '\n'.join(r[1] for r in results if r[1])
    print(out[-3000:])
    print('setup: translator %s, make %s, %.0fs' % ('ok' if ok else 'REFUSED', 'ok' if okm else 'FAILED', time.time() - t0))
    # setup failing to build a file is reported but not fatal: each check re-builds its own closure
    return 0


def main():
    ap = argparse.ArgumentParser()
    ap.add_argument('prop', nargs='?')
    ap.add_argument('--tier', default=os.environ.get('VERIF_TIER', 'quick'), choices=['quick', 'thorough'])
    ap.add_argument('--setup', action='store_true')
    ap.add_argument('--all', action='store_true')
    ap.add_argument('--replay')
    ap.add_argument('--build', nargs='+', help='build the given .v files (relative to theories/) and their closure under the build lock')
    ap.add_argument('--gen', nargs='+', help='regenerate the given translate targets (e.g. gen_protect) and print the result')
    ap.add_argument('--seed', type=int, default=int(os.environ.get('VERIF_SEED', '20260921')))
    a = ap.parse_args()
    if a.setup:
        sys.exit(setup())
    if a.gen:
        ok, msgs, files = core.regenerate(a.gen)
        print('\n'.join(msgs))
        sys.exit(0 if ok else 1)
    if a.build:
        ok, out, cmd = core.make([f[:-2] + '.vo' for f in a.build])
        print(out[-6000:])
        print('BUILD', 'OK' if ok else 'FAILED')
        sys.exit(0 if ok else 1)
    if a.all:
        man = json.load(open(os.path.join(core.VERIF, 'MANIFEST.json')))
        rc = 0
        for c in man['checks']:
            cls = load_plugin(c['property_id'])
            rc |= core.run_check(cls(a.tier, a.seed))
        sys.exit(rc)
    if not a.prop:
        ap.error('property id required')
    cls = load_plugin(a.prop)
    chk = cls(a.tier, a.seed)
    if a.replay:
        sys.exit(core.replay(chk, a.replay))
    try:
        rc = core.run_check(chk)
    except SystemExit:
        raise
    except BaseException as e:
        # the harness itself fell over (e.g. the code it instruments changed shape): the property is no longer shown to hold
        import traceback, hashlib
        tb = traceback.format_exc()
        os.makedirs(os.path.join(core.VERIF, 'replays'), exist_ok=True)
        path = os.path.join(core.VERIF, 'replays', '%s-%s.json' % (a.prop, hashlib.sha1(tb.encode()).hexdigest()[:12]))
        json.dump({'property': a.prop, 'kind': 'no-failing-input-found',
                   'no_longer_checks': [{'broken': 'correspondence harness raised %s' % type(e).__name__, 'detail': tb[-3000:]}],
                   'how_to_replay': './check %s --tier %s' % (a.prop, a.tier)}, open(path, 'w'), indent=1)
        print(tb[-1500:])
        print('VIOLATION property=%s replay=%s no-failing-input-found' % (a.prop, path))
        sys.exit(1)
    sys.exit(rc)


if __name__ == '__main__':
    main()
