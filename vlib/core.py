"""
Core of the /verif check runner: regenerate -> re-check proofs -> correspondence -> verdict -> evidence.
See DESIGN.md sections 2-4.
"""
import fcntl
import hashlib
import importlib
import json
import os
import random
import re
import shutil
import subprocess
import sys
import time
import traceback
from concurrent.futures import ThreadPoolExecutor

VERIF = os.path.dirname(os.path.dirname(os.path.abspath(__file__)))
REPO = os.environ.get('VERIF_REPO', '/repo')
THEORIES = os.path.join(VERIF, 'theories')
GEN = os.path.join(THEORIES, 'gen')
WORK = os.path.join(VERIF, '.work')
PY = '/venv/bin/python'
COQ_TIMEOUT = 1500
SHARD = 400

sys.path.insert(0, os.path.join(VERIF, 'translate'))
sys.path.insert(0, VERIF)


def log(*a):
    print(*a, file=sys.stderr)
    sys.stderr.flush()


class BuildLock(object):
    def __enter__(self):
        os.makedirs(WORK, exist_ok=True)
        self.f = open(os.path.join(WORK, 'build.lock'), 'w')
        fcntl.flock(self.f, fcntl.LOCK_EX)
        return self

    def __exit__(self, *a):
        fcntl.flock(self.f, fcntl.LOCK_UN)
        self.f.close()


def run(cmd, timeout=COQ_TIMEOUT, cwd=None, env=None):
    t0 = time.time()
    try:
        p = subprocess.run(cmd, cwd=cwd, env=env, stdout=subprocess.PIPE, stderr=subprocess.STDOUT,
                           timeout=timeout, universal_newlines=True, errors='replace')
        return p.returncode, p.stdout, time.time() - t0
    except subprocess.TimeoutExpired as e:
        out = e.stdout or ''
        if isinstance(out, bytes):
            out = out.decode('utf8', 'replace')
        return 124, out + '\nTIMEOUT after %ss' % timeout, time.time() - t0


# ---------------------------------------------------------------------------
# Coq project

def coq_files():
    res = []
    for d in ('lib', 'gen', 'model', 'proofs', 'props'):
        dd = os.path.join(THEORIES, d)
        if os.path.isdir(dd):
            for f in sorted(os.listdir(dd)):
                if f.endswith('.v'):
                    res.append('%s/%s' % (d, f))
    return res


def write_coqproject():
    head = ('-Q . PCB\n'
            '-arg -w -arg -notation-overridden,-deprecated-hint-without-locality,'
            '-deprecated-hint-rewrite-without-locality,-deprecated-instance-without-locality\n')
    text = head + '\n'.join(coq_files()) + '\n'
    path = os.path.join(THEORIES, '_CoqProject')
    changed = True
    try:
        changed = open(path).read() != text
    except IOError:
        pass
    if changed or not os.path.exists(os.path.join(THEORIES, 'Makefile')):
        with open(path, 'w') as f:
            f.write(text)
        rc, out, _ = run(['coq_makefile', '-f', '_CoqProject', '-o', 'Makefile'], cwd=THEORIES, timeout=120)
        if rc != 0:
            raise RuntimeError('coq_makefile failed:\n' + out)


class FileLock(object):
    """Per-file build lock (so checks with disjoint closures build in parallel)."""

    def __init__(self, relpath):
        d = os.path.join(WORK, 'locks')
        os.makedirs(d, exist_ok=True)
        self.path = os.path.join(d, relpath.replace('/', '__') + '.lock')

    def __enter__(self):
        self.f = open(self.path, 'w')
        fcntl.flock(self.f, fcntl.LOCK_EX)
        return self

    def __exit__(self, *a):
        fcntl.flock(self.f, fcntl.LOCK_UN)
        self.f.close()


def direct_deps(vfile):
    """PCB-internal files directly required by a .v file."""
    p = os.path.join(THEORIES, vfile)
    deps = []
    if not os.path.exists(p):
        return deps
    src = strip_comments(open(p).read())
    for sentence in re.split(r'\.\s', src):
        mo = re.match(r'\s*(?:From\s+(\S+)\s+)?Require\s+(?:Import\s+|Export\s+)?(.*)$', sentence, re.S)
        if not mo or mo.group(1) not in (None, 'PCB'):
            continue
        for name in mo.group(2).split():
            if name.startswith('PCB.'):
                name = name[4:]
            cand = name.replace('.', '/') + '.v'
            if os.path.exists(os.path.join(THEORIES, cand)) and cand not in deps:
                deps.append(cand)
    return deps


def build_order(vfiles):
    """Dependencies-first order of the closure of the given files."""
    order = []
    state = {}

    def visit(f):
        if state.get(f) == 2:
            return
        if state.get(f) == 1:
            raise RuntimeError('dependency cycle at %s' % f)
        state[f] = 1
        for d in direct_deps(f):
            visit(d)
        state[f] = 2
        order.append(f)
    for f in vfiles:
        visit(f)
    return order


def _mtime(p):
    try:
        return os.path.getmtime(p)
    except OSError:
        return None


def make(targets, jobs=16, timeout=COQ_TIMEOUT):
    """Build .vo targets (paths relative to theories/) and everything they depend on, each file under its own
    lock, recompiling a file when its source or one of its dependencies is newer than its .vo.
    Returns (ok, output, cmdline)."""
    vfiles = [t[:-3] + '.v' if t.endswith('.vo') else t for t in targets]
    try:
        order = build_order(vfiles)
    except RuntimeError as e:
        return False, str(e), 'build'
    ok = True
    out = []
    failed = set()
    t_end = time.time() + timeout
    for f in order:
        deps = direct_deps(f)
        if any(d in failed for d in deps):
            failed.add(f)
            continue
        vo = os.path.join(THEORIES, f[:-2] + '.vo')
        with FileLock(f):
            mv = _mtime(os.path.join(THEORIES, f))
            mo = _mtime(vo)
            stale = mo is None or mo < mv
            if not stale:
                for d in deps:
                    md = _mtime(os.path.join(THEORIES, d[:-2] + '.vo'))
                    if md is None or md > mo:
                        stale = True
            if stale:
                remaining = max(30, int(t_end - time.time()))
                okc, outc, cmd, wall = coqc(f, timeout=remaining)
                out.append('COQC %s (%.1fs)' % (f, wall))
                if not okc:
                    ok = False
                    failed.add(f)
                    out.append(outc)
                    try:
                        os.remove(vo)
                    except OSError:
                        pass
    return ok, '\n'.join(out), 'coqc -Q . PCB <file>  for each stale file of: ' + ' '.join(order)


def coqc(path, timeout=600):
    """Compile one file (path relative to theories/), capture output."""
    cmd = ['timeout', str(timeout), 'coqc', '-Q', '.', 'PCB', '-w',
           '-notation-overridden,-deprecated-hint-without-locality,-deprecated-hint-rewrite-without-locality,'
           '-deprecated-instance-without-locality', path]
    rc, out, wall = run(cmd, cwd=THEORIES, timeout=timeout + 30)
    return rc == 0, out, ' '.join(cmd), wall


def closure(vfile):
    """Transitive PCB-internal dependencies of a .v file (relative paths), including itself."""
    seen = []

    def visit(f):
        if f in seen:
            return
        p = os.path.join(THEORIES, f)
        if not os.path.exists(p):
            return
        seen.append(f)
        src = strip_comments(open(p).read())
        for sentence in re.split(r'\.\s', src):
            mo = re.match(r'\s*(?:From\s+(\S+)\s+)?Require\s+(?:Import\s+|Export\s+)?(.*)$', sentence, re.S)
            if not mo:
                continue
            if mo.group(1) not in (None, 'PCB'):
                continue
            for name in mo.group(2).split():
                if name.startswith('PCB.'):
                    name = name[4:]
                cand = name.replace('.', '/') + '.v'
                if os.path.exists(os.path.join(THEORIES, cand)):
                    visit(cand)
    visit(vfile)
    return seen


OBLIGATION_RE = re.compile(r'^\s*(?:Local\s+|Global\s+|#\[[^\]]*\]\s*)*(Theorem|Lemma|Corollary|Example|Fact|Proposition|Remark)\s+([A-Za-z_][\w\']*)', re.M)


def count_obligations(files):
    """Count theorem-like statements per file (source text, comments stripped)."""
    res = {}
    for f in files:
        p = os.path.join(THEORIES, f)
        src = open(p).read()
        src = strip_comments(src)
        res[f] = [mo.group(2) for mo in OBLIGATION_RE.finditer(src)]
    return res


def strip_comments(src):
    out = []
    depth = 0
    i = 0
    instr = False
    while i < len(src):
        c2 = src[i:i + 2]
        if depth == 0 and src[i] == '"':
            instr = not instr
            out.append(src[i])
            i += 1
        elif not instr and c2 == '(*':
            depth += 1
            i += 2
        elif not instr and c2 == '*)' and depth > 0:
            depth -= 1
            i += 2
        else:
            if depth == 0:
                out.append(src[i])
            i += 1
    return ''.join(out)


FORBIDDEN_RE = re.compile(
    r'\b(Admitted|admit|Axiom|Axioms|Parameter|Parameters|Conjecture|Conjectures|Admit\s+Obligations|'
    r'bypass_check|native_compute)\b|Unset\s+Guard\s+Checking|Unset\s+Positivity\s+Checking|'
    r'Unset\s+Universe\s+Checking|type-in-type|impredicative-set')


def forbidden_scan(files=None):
    """Scan .v sources for forbidden vernacular. Section Variables/Hypotheses are allowed only inside sections."""
    bad = []
    for f in (files or coq_files()):
        src = strip_comments(open(os.path.join(THEORIES, f)).read())
        for mo in FORBIDDEN_RE.finditer(src):
            bad.append('%s: %s' % (f, mo.group(0)))
        # Variable/Hypothesis/Context outside a section
        depth = 0
        for mo in re.finditer(r'^\s*(Section|End|Variable|Variables|Hypothesis|Hypotheses|Context|Module|Module\s+Type)\b\s*([\w]*)', src, re.M):
            kw = mo.group(1)
            if kw == 'Section':
                depth += 1
            elif kw == 'End':
                depth = max(0, depth - 1)
            elif kw in ('Variable', 'Variables', 'Hypothesis', 'Hypotheses', 'Context') and depth == 0:
                bad.append('%s: %s outside section' % (f, kw))
    return bad


def parse_assumptions(out):
    """Split coqc output of a props file into {theorem: assumptions text}."""
    res = []
    cur = None
    for line in out.splitlines():
        if line.startswith('Closed under the global context'):
            res.append('Closed under the global context')
            cur = None
        elif line.startswith('Axioms:'):
            cur = []
            res.append(cur)
        elif cur is not None:
            if line.strip() == '' or re.match(r'^(File|Warning|\S+ is |Fetching)', line):
                cur = None
            else:
                # an axiom entry starts in column 0 with its name; its type continues on indented lines
                if line[:1] not in (' ', '\t'):
                    cur.append('@@' + line.rstrip())
                else:
                    cur.append(line.rstrip())
    flat = []
    for r in res:
        if isinstance(r, list):
            flat.append('Axioms: ' + ' '.join(x.strip() for x in r))
        else:
            flat.append(r)
    return flat


def axiom_names(assumption_texts):
    """Axiom names of flattened Print Assumptions texts (see parse_assumptions: names are marked with '@@')."""
    names = set()
    for t in assumption_texts:
        if t.startswith('Axioms:'):
            for mo in re.finditer(r'@@([A-Za-z_][\w.\']*)', t):
                names.add(mo.group(1))
    return names


# ---------------------------------------------------------------------------
# regeneration (translator)

def regenerate(target_names):
    """Run translate/targets/<name>.py for each target; write theories/gen/<OUT>.
    Returns (ok, messages, files)."""
    import py2v
    ok = True
    msgs = []
    files = []
    os.makedirs(GEN, exist_ok=True)
    for name in target_names:
        try:
            mod = importlib.import_module('targets.' + name)
            importlib.reload(mod)
            text = mod.generate(REPO)
            path = os.path.join(GEN, mod.OUT)
            changed = py2v.write_if_changed(path, text)
            files.append('gen/' + mod.OUT)
            msgs.append('%s: regenerated from %s (%s)' % (mod.OUT, ','.join(mod.SOURCES), 'changed' if changed else 'unchanged'))
        except py2v.Refuse as e:
            ok = False
            msgs.append('%s: translator REFUSED: %s' % (name, e))
        except Exception as e:
            ok = False
            msgs.append('%s: translator failed: %s\n%s' % (name, e, traceback.format_exc()))
    return ok, msgs, files


def all_targets():
    d = os.path.join(VERIF, 'translate', 'targets')
    return sorted(f[:-3] for f in os.listdir(d) if f.startswith('gen_') and f.endswith('.py'))


# ---------------------------------------------------------------------------
# evaluating the model inside Coq on generated cases

def zl(l):
    return '[' + ';'.join(('(%d)' % x if x < 0 else '%d' % x) for x in l) + ']'


def parse_mismatches(out):
    """Parse `= [(i, [..]); ...] : list (Z * list Z)` from coqc output."""
    mo = re.search(r'=\s*(\[.*?\])\s*:\s*list \(Z \* list Z\)', out, re.S)
    if not mo:
        return None
    body = re.sub(r'\s+', '', mo.group(1))
    body = body.replace('%Z', '')
    res = []
    for mo2 in re.finditer(r'\((-?\d+),\[([^\]]*)\]\)', body):
        idx = int(mo2.group(1))
        vals = [int(x.strip('()')) for x in mo2.group(2).split(';') if x != '']
        res.append((idx, vals))
    return res


def eval_model(prop_id, imports, cases, tag='cases'):
    """cases: list of (coq_term_of_type_list_Z, expected_list_of_int).
    Returns (mismatches [(index, model_output)], errors [str], cmdline)."""
    d = os.path.join(THEORIES, 'cases')
    os.makedirs(d, exist_ok=True)
    shards = [cases[i:i + SHARD] for i in range(0, len(cases), SHARD)]
    names = []
    pid = os.getpid()
    for si, sh in enumerate(shards):
        name = 'cases/%s_%s_%d_%d.v' % (prop_id, tag, pid, si)
        with open(os.path.join(THEORIES, name), 'w') as f:
            f.write('From Coq Require Import ZArith List Bool String.\n')
            f.write('From PCB Require Import lib.Result lib.PyInt lib.Harness.\n')
            for imp in imports:
                f.write('From PCB Require Import %s.\n' % imp)
            f.write('Import ListNotations.\nOpen Scope Z_scope.\n')
            f.write('Definition cases : list (list Z * list Z) := [\n')
            f.write(';\n'.join('(%s, %s)' % (t, zl(e)) for t, e in sh))
            f.write('\n].\nEval vm_compute in (mismatches cases).\n')
        names.append(name)
    mism = []
    errors = []

    def one(args):
        si, name = args
        ok, out, cmd, wall = coqc(name, timeout=900)
        return si, ok, out, cmd

    cmd = ''
    with ThreadPoolExecutor(max_workers=12) as ex:
        for si, ok, out, cmd in ex.map(one, list(enumerate(names))):
            if not ok:
                errors.append('shard %d: coqc failed:\n%s' % (si, out[-3000:]))
                continue
            mm = parse_mismatches(out)
            if mm is None:
                errors.append('shard %d: cannot parse coqc output:\n%s' % (si, out[-2000:]))
                continue
            for idx, vals in mm:
                mism.append((si * SHARD + idx, vals))
    for name in names:
        base = os.path.join(THEORIES, name[:-2])
        for ext in ('.v', '.vo', '.vok', '.vos', '.glob'):
            try:
                os.remove(base + ext)
            except OSError:
                pass
        try:
            os.remove(os.path.join(THEORIES, 'cases', '.' + os.path.basename(name)[:-2] + '.aux'))
        except OSError:
            pass
    return mism, errors, cmd


# ---------------------------------------------------------------------------
# known findings

def load_known():
    """known_findings.json plus every fixes/K*.json (all committed, read-only at run time)."""
    res = []
    p = os.path.join(VERIF, 'known_findings.json')
    if os.path.exists(p):
        res += json.load(open(p)).get('findings', [])
    d = os.path.join(VERIF, 'fixes')
    if os.path.isdir(d):
        for f in sorted(os.listdir(d)):
            if f.startswith('K') and f.endswith('.json'):
                try:
                    k = json.load(open(os.path.join(d, f)))
                except ValueError:
                    continue
                for e in (k if isinstance(k, list) else [k]):
                    if not any(x.get('id') == e.get('id') and x.get('property') == e.get('property') for x in res):
                        res.append(e)
    return res


# ---------------------------------------------------------------------------
# the per-property check

class Check(object):
    """Base class of harness/Cxx.py plugins.  Override what applies."""
    ID = None
    GEN = []                 # translate targets (module names under translate/targets)
    PROPS = None             # 'props/Cxx.v'
    MODEL_IMPORTS = []       # Coq modules (relative to PCB) needed to evaluate model terms
    ALLOWED_AXIOMS = set()   # names allowed in Print Assumptions
    TRUSTED = []             # extra trusted-base strings for the evidence
    PARTIAL = None           # text: what is not covered by the theorems (None = full)
    QUICK_CASES = 600
    THOROUGH_CASES = 6000

    def __init__(self, tier, seed):
        self.tier = tier
        self.seed = seed
        self.rng = random.Random(seed)

    # -- correspondence
    def corpus(self):
        """Fixed cases that run first (minimised past disagreements, boundary cases)."""
        return []

    def gen_cases(self, n):
        """Generate n cases (json-able objects)."""
        return []

    def impl(self, case):
        """Run the implementation on a case; return a list of ints (canonical encoding)."""
        raise NotImplementedError

    def model_term(self, case):
        """Coq term of type `list Z` computing the model's canonical output on the case."""
        raise NotImplementedError

    def nontrivial(self, case, out):
        """Is the case non-trivial (reached a non-error, non-degenerate branch)?"""
        return True

    def oracle(self, case, out):
        """Direct executable reading of the property on the implementation's behaviour.
        Return None if the case satisfies the property, else a description of the violation."""
        return None

    def known_match(self, finding, case, out):
        """Does a failing case match a known finding entry (by its specific witness)?"""
        return False

    def known_rerun(self, finding):
        """Re-run the recorded witness of a known finding; return True if it still fails as recorded."""
        return True

    def extra_search(self, budget_s):
        """Optional additional counterexample search (implementation only). Yield (case, out, why)."""
        return []

    def describe(self, case):
        return case

    def shrink_candidates(self, case):
        """Smaller variants of a failing case (default: shorten list-valued fields of dict cases)."""
        if not isinstance(case, dict):
            return
        for k, v in case.items():
            if isinstance(v, list) and len(v) > 0:
                n = len(v)
                cuts = []
                if n > 1:
                    cuts += [v[:n // 2], v[n // 2:]]
                if n <= 40:
                    cuts += [v[:i] + v[i + 1:] for i in range(n)]
                else:
                    step = max(1, n // 8)
                    cuts += [v[:i] + v[i + step:] for i in range(0, n, step)]
                for c in cuts:
                    d = dict(case)
                    d[k] = c
                    yield d


def sha(obj):
    return hashlib.sha1(json.dumps(obj, sort_keys=True, default=str).encode()).hexdigest()[:12]


def write_replay(prop, payload):
    os.makedirs(os.path.join(VERIF, 'replays'), exist_ok=True)
    path = os.path.join(VERIF, 'replays', '%s-%s.json' % (prop, sha(payload)))
    with open(path, 'w') as f:
        json.dump(payload, f, indent=1, default=str)
    return path


def shrink(chk, case, out, why, budget_s=20):
    """Greedy delta debugging of a failing case with the property oracle (time-boxed)."""
    t0 = time.time()
    best = (case, out, why)
    progress = True
    while progress and time.time() - t0 < budget_s:
        progress = False
        try:
            cands = list(chk.shrink_candidates(best[0]))
        except Exception:
            break
        for c in cands:
            if time.time() - t0 > budget_s:
                break
            try:
                o = chk.impl(c)
                w = chk.oracle(c, o)
            except Exception:
                continue
            if w:
                best = (c, o, w)
                progress = True
                break
    return best


def run_check(chk):
    """Run one property check. Returns exit code."""
    t0 = time.time()
    prop = chk.ID
    tier = chk.tier
    ev = {'property_id': prop, 'tier': tier, 'seed': chk.seed, 'level': 'proof'}
    cov = {}
    violations = []          # (why, case, out)
    notes = []
    known = [k for k in load_known() if k.get('property') == prop]

    # 1. regenerate
    T, tmsgs, genfiles = regenerate(chk.GEN)
    notes += tmsgs
    for m in tmsgs:
        log('[%s] %s' % (prop, m))

    # 2. proofs
    P = True
    proof_problem = None
    assumptions = []
    checker_cmds = []
    files = closure(chk.PROPS)
    obl = count_obligations([f for f in files if not f.startswith('lib/')] or files)
    n_obl = sum(len(v) for v in obl.values())
    discharged = 0
    if True:
        deps = [f[:-2] + '.vo' for f in files if f != chk.PROPS]
        okm, outm, cmdm = make(deps)
        checker_cmds.append('(cd theories && %s)' % cmdm)
        if not okm:
            P = False
            proof_problem = 'make failed for the proof closure of %s:\n%s' % (chk.PROPS, tail_errors(outm))
        okp, outp, cmdp, wallp = coqc(chk.PROPS)
        checker_cmds.append('(cd theories && %s)' % cmdp)
        if not okp:
            P = False
            proof_problem = (proof_problem or '') + '\ncoqc %s failed:\n%s' % (chk.PROPS, tail_errors(outp))
        else:
            assumptions = parse_assumptions(outp)
        for f, names in obl.items():
            vo = os.path.join(THEORIES, f[:-2] + '.vo')
            if os.path.exists(vo) and os.path.getmtime(vo) >= os.path.getmtime(os.path.join(THEORIES, f)):
                if f == chk.PROPS and not okp:
                    continue
                discharged += len(names)
        # model closure for evaluation (may still build when proofs are broken)
        model_ok = True
        mdeps = []
        for imp in chk.MODEL_IMPORTS:
            mdeps.append(imp.replace('.', '/') + '.vo')
        if mdeps:
            model_ok, outmm, _ = make(mdeps)
            if not model_ok:
                notes.append('model files failed to build: ' + tail_errors(outmm))
    bad_axioms = sorted(a for a in axiom_names(assumptions) if a not in chk.ALLOWED_AXIOMS)
    if bad_axioms:
        P = False
        proof_problem = (proof_problem or '') + '\nunexpected axioms: %s' % bad_axioms
    forb = forbidden_scan(files)
    if forb:
        P = False
        proof_problem = (proof_problem or '') + '\nforbidden vernacular: %s' % forb
    if tier == 'thorough' and P:
        if True:
            rc, outc, wallc = run(['timeout', '1800', 'coqchk', '-silent', '-o', '-Q', '.', 'PCB',
                                   'PCB.' + chk.PROPS[:-2].replace('/', '.')], cwd=THEORIES, timeout=1900)
        checker_cmds.append('(cd theories && coqchk -silent -o -Q . PCB PCB.%s)' % chk.PROPS[:-2].replace('/', '.'))
        cov['coqchk'] = {'ok': rc == 0, 'wall_s': round(wallc, 1), 'tail': outc[-1500:]}
        if rc != 0:
            P = False
            proof_problem = (proof_problem or '') + '\ncoqchk failed:\n' + outc[-2000:]

    t_proofs = time.time() - t0
    # 3. correspondence
    n_cases = chk.THOROUGH_CASES if tier == 'thorough' else chk.QUICK_CASES
    cases = list(chk.corpus())
    n_corpus = len(cases)
    cases += list(chk.gen_cases(n_cases))
    outs = []
    hist = {}
    impl_errors = []
    for c in cases:
        try:
            o = chk.impl(c)
        except Exception as e:
            o = None
            impl_errors.append((c, '%s: %s' % (type(e).__name__, e)))
        outs.append(o)
    K = True
    disagreements = []
    model_errors = []
    cmd_eval = ''
    live = [(i, c, o) for i, (c, o) in enumerate(zip(cases, outs)) if o is not None]
    if impl_errors:
        K = False
    if model_ok and live:
        terms = []
        for i, c, o in live:
            terms.append((chk.model_term(c), o))
        mism, model_errors, cmd_eval = eval_model(prop, chk.MODEL_IMPORTS, terms)
        if cmd_eval:
            checker_cmds.append('(cd theories && %s)  # x%d shards, Eval vm_compute in (mismatches cases)' % (
                re.sub(r'cases/\S+', 'cases/<shard>.v', cmd_eval), (len(terms) + SHARD - 1) // SHARD))
        for idx, mout in mism:
            i, c, o = live[idx]
            disagreements.append({'case': chk.describe(c), 'impl': o, 'model': mout})
        if mism or model_errors:
            K = False
    elif not model_ok:
        K = False
    # property oracle on every case (always; it is the direct reading of the property)
    distinct = set()
    for i, c, o in live:
        why = chk.oracle(c, o)
        if why:
            violations.append((why, c, o))
        try:
            if chk.nontrivial(c, o):
                distinct.add(sha([c, o]))
        except Exception:
            pass
    for c, e in impl_errors:
        violations.append(('implementation adapter raised %s' % e, c, None))

    t_corr = time.time() - t0 - t_proofs
    # 4. verdict
    holds = P and T and K and not violations
    found = list(violations)
    if not holds and not found:
        # search for a concrete failing input: disagreements first (already oracle-checked above),
        # then a time-boxed extra search
        budget = 600 if tier == 'thorough' else 45
        try:
            for c, o, why in chk.extra_search(budget):
                found.append((why, c, o))
                break
        except Exception as e:
            notes.append('extra_search failed: %s' % e)
    exit_code = 0
    printed_known = []
    unlisted = []
    for why, c, o in found:
        m = None
        for k in known:
            if k.get('status') == 'known' and chk.known_match(k, c, o):
                m = k
                break
        if m is None:
            unlisted.append((why, c, o))
    # known findings: re-run their witnesses, print the line
    for k in known:
        if k.get('status') != 'known':
            continue
        try:
            still = chk.known_rerun(k)
        except Exception as e:
            still = False
            notes.append('known finding %s: re-run raised %s' % (k.get('id'), e))
        if still:
            print('KNOWN-FINDING: property=%s %s' % (prop, k.get('what')))
            printed_known.append(k.get('id'))
        else:
            notes.append('known finding %s no longer reproduces; line omitted' % k.get('id'))
    if unlisted:
        seen = set()
        for why, c, o in unlisted[:5]:
            if o is not None:
                try:
                    c, o, why = shrink(chk, c, o, why, budget_s=8)
                except Exception as e:
                    notes.append('shrink failed: %s' % e)
            payload = {'property': prop, 'kind': 'failing-input', 'why': why, 'input': chk.describe(c),
                       'observed': o, 'how_to_replay': './check %s --replay <this file>' % prop}
            key = sha(payload)
            if key in seen:
                continue
            seen.add(key)
            path = write_replay(prop, payload)
            print('VIOLATION property=%s replay=%s' % (prop, path))
        exit_code = 1
    elif not (P and T and K):
        # the property is no longer shown to hold and no failing input was found
        what = []
        if not T:
            what.append({'broken': 'translator tie', 'detail': [m for m in tmsgs if 'REFUSED' in m or 'failed' in m]})
        if not P:
            what.append({'broken': 'proof obligation', 'detail': proof_problem})
        if not K:
            what.append({'broken': 'correspondence model vs implementation',
                         'disagreements': disagreements[:10], 'model_errors': model_errors[:3],
                         'model_built': model_ok})
        payload = {'property': prop, 'kind': 'no-failing-input-found', 'no_longer_checks': what,
                   'theorem_file': chk.PROPS, 'how_to_replay': './check %s --tier %s' % (prop, tier)}
        path = write_replay(prop, payload)
        print('VIOLATION property=%s replay=%s no-failing-input-found' % (prop, path))
        exit_code = 1

    # 5. evidence
    samples = []
    for i, c, o in live[:3] + live[n_corpus:n_corpus + 3]:
        samples.append({'case': chk.describe(c), 'impl_out': o if len(str(o)) < 400 else str(o)[:400] + '...'})
    cov.update({
        'obligations': n_obl,
        'discharged': discharged if P or discharged < n_obl else max(0, n_obl - 1),
        'checker_cmd': ' ; '.join(checker_cmds),
        'trusted_base': ['Coq 8.16.1 kernel + vm_compute (no native_compute)'] +
                        ['Print Assumptions: ' + a for a in assumptions] +
                        ['translator translate/py2v.py + translate/targets/%s.py' % g for g in chk.GEN] +
                        list(chk.TRUSTED),
        'evaluations': len(cases),
        'distinct_nontrivial': len(distinct),
        'rule': getattr(chk, 'RULE', 'cases from corpus + seeded generator; non-trivial = implementation returned a non-error result on a non-degenerate input; distinct by hash of (case, output)'),
        'samples': samples or [{'note': 'no correspondence cases'}],
        'obligation_names': obl,
        'translator': tmsgs,
        'wall_breakdown_s': {'regenerate+proofs': round(t_proofs, 1), 'correspondence': round(t_corr, 1)},
        'proofs_ok': P, 'translator_ok': T, 'correspondence_ok': K,
        'disagreements': disagreements[:10],
        'known_findings_printed': printed_known,
        'notes': notes,
        'explanation': ('Theorems in %s re-checked by coqc on this run against the regenerated/compiled model; '
                        'the model was run against the implementation on %d cases (%d from corpus).'
                        % (chk.PROPS, len(cases), n_corpus)) + (' PARTIAL: ' + chk.PARTIAL if chk.PARTIAL else ''),
    })
    hist = getattr(chk, 'histogram', None)
    if hist:
        cov['histogram'] = hist
    ev['coverage'] = cov
    ev['assumptions'] = list(chk.TRUSTED) + ([chk.PARTIAL] if chk.PARTIAL else [])
    ev['wall_s'] = round(time.time() - t0, 2)
    ev['violations'] = len(unlisted) if unlisted else (0 if exit_code == 0 else 1)
    os.makedirs(os.path.join(VERIF, 'evidence'), exist_ok=True)
    with open(os.path.join(VERIF, 'evidence', '%s.json' % prop), 'w') as f:
        json.dump(ev, f, indent=1, default=str)
    log('[%s] tier=%s P=%s T=%s K=%s violations=%d obligations=%d/%d cases=%d nontrivial=%d wall=%.1fs -> exit %d' % (
        prop, tier, P, T, K, len(unlisted), cov['discharged'], n_obl, len(cases), len(distinct), ev['wall_s'], exit_code))
    if proof_problem:
        log(proof_problem[-3000:])
    for d in disagreements[:5]:
        log('DISAGREE', json.dumps(d, default=str)[:600])
    for m in model_errors[:2]:
        log(m[-1500:])
    return exit_code


def tail_errors(out):
    lines = out.splitlines()
    idx = [i for i, l in enumerate(lines) if 'Error' in l or 'error' in l]
    if idx:
        i = max(0, idx[0] - 8)
        return '\n'.join(lines[i:i + 40])
    return '\n'.join(lines[-25:])


def replay(chk, path):
    """Re-run exactly the recorded input on the current tree; print observed vs recorded."""
    payload = json.load(open(path))
    print('replay of %s (%s)' % (path, payload.get('kind')))
    if payload.get('kind') != 'failing-input':
        print(json.dumps(payload, indent=1)[:4000])
        print('no concrete input recorded; re-run: %s' % payload.get('how_to_replay'))
        return run_check(chk)
    case = payload['input']
    try:
        case = chk.undescribe(case) if hasattr(chk, 'undescribe') else case
        out = chk.impl(case)
    except Exception as e:
        print('implementation raised %s: %s' % (type(e).__name__, e))
        return 1
    why = chk.oracle(case, out)
    print('input   :', json.dumps(payload['input'], default=str)[:2000])
    print('recorded:', payload.get('observed'))
    print('observed:', out)
    print('oracle  :', why or 'property holds on this input now')
    if why:
        print('VIOLATION property=%s replay=%s' % (chk.ID, path))
        return 1
    return 0


class time_limit(object):
    """Wall-clock limit for one implementation call (SIGALRM)."""

    def __init__(self, seconds):
        self.seconds = seconds

    def __enter__(self):
        import signal

        def handler(signum, frame):
            raise TimeoutError('implementation call exceeded %ss' % self.seconds)
        self.old = signal.signal(signal.SIGALRM, handler)
        signal.alarm(self.seconds)

    def __exit__(self, *a):
        import signal
        signal.alarm(0)
        signal.signal(signal.SIGALRM, self.old)
