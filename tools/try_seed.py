#!/usr/bin/env python3
"""tools/try_seed.py <Cxx> [--name NAME] [checks...]: verify a seeded change from /tmp/seed-<Cxx>-out (or seeded/<name>)
myself (applies in a scratch worktree: baseline + demo on both trees), store it under /verif/seeded/<name>/,
apply it to /repo, run the given checks (default: the property's own), undo, and record the outcome in meta.json."""
import json, os, shutil, subprocess, sys, time
args = sys.argv[1:]
prop = args[0]
name = prop
checks = []
i = 1
while i < len(args):
    if args[i] == '--name':
        name = args[i + 1]; i += 2
    else:
        checks.append(args[i]); i += 1
checks = checks or [prop]
src = '/tmp/seed-%s-out' % name if os.path.isdir('/tmp/seed-%s-out' % name) else '/tmp/seed-%s-out' % prop
dst = '/verif/seeded/%s' % name
def sh(cmd, **kw):
    return subprocess.run(cmd, shell=True, stdout=subprocess.PIPE, stderr=subprocess.STDOUT, universal_newlines=True, **kw)
os.makedirs(dst, exist_ok=True)
if os.path.isdir(src):
    for f in ('patch.diff', 'demo.py', 'meta.json'):
        if os.path.exists(os.path.join(src, f)):
            shutil.copy(os.path.join(src, f), os.path.join(dst, f))
meta = json.load(open(os.path.join(dst, 'meta.json')))
wt = '/tmp/tryseed-%s' % name
sh('git -C /repo worktree remove --force %s' % wt)
r = sh('git -C /repo worktree add --detach %s HEAD' % wt)
ran = []
try:
    r = sh('git -C %s apply %s/patch.diff' % (wt, dst))
    if r.returncode:
        r = sh('git -C %s apply -3 %s/patch.diff' % (wt, dst))
    if r.returncode:
        print('PATCH DOES NOT APPLY', r.stdout); sys.exit(2)
    b = sh('python3 /verif/tools/baseline_check.py %s' % wt)
    base_ok = b.returncode == 0
    ran.append('baseline on changed tree: %s' % b.stdout.strip().splitlines()[-1] if base_ok else 'baseline FAILED: ' + b.stdout[-300:])
    d0 = sh('cd %s && PYTHONPATH=/repo PYTHONHASHSEED=0 timeout 600 /venv/bin/python demo.py' % dst)
    d1 = sh('cd %s && PYTHONPATH=%s PYTHONHASHSEED=0 timeout 600 /venv/bin/python demo.py' % (dst, wt))
    ran.append('demo on /repo: exit %d; demo on changed tree: exit %d' % (d0.returncode, d1.returncode))
    confirmed = base_ok and d0.returncode == 0 and d1.returncode != 0
    print('\n'.join(ran)); print('confirmed' if confirmed else 'NOT CONFIRMED')
    if not confirmed:
        print(d0.stdout[-500:], d1.stdout[-500:])
finally:
    sh('git -C /repo worktree remove --force %s' % wt)
results = {}
if confirmed:
    assert not sh('git -C /repo status --short').stdout.strip(), 'repo dirty'
    sh('git -C /repo apply %s/patch.diff || git -C /repo apply -3 %s/patch.diff' % (dst, dst))
    # evidence files must only ever describe runs on the unchanged tree: save and restore them
    saved_ev = {}
    for c in checks:
        pth = '/verif/evidence/%s.json' % c
        if os.path.exists(pth):
            saved_ev[pth] = open(pth).read()
    try:
        procs = {c: subprocess.Popen('cd /verif && ./check %s' % c, shell=True, stdout=subprocess.PIPE, stderr=subprocess.STDOUT, universal_newlines=True) for c in checks}
        for c, p in procs.items():
            out = p.communicate()[0]
            viol = [l for l in out.splitlines() if l.startswith('VIOLATION')]
            summ = [l for l in out.splitlines() if 'tier=' in l]
            results[c] = {'exit': p.returncode, 'violations': viol[:3], 'summary': summ[-1][:200] if summ else ''}
            # keep one replay as evidence of detection
            for v in viol[:1]:
                path = v.split('replay=')[1].split()[0]
                if os.path.exists(path):
                    shutil.copy(path, os.path.join(dst, 'detected_by_%s_replay.json' % c))
    finally:
        for pth, txt in saved_ev.items():
            open(pth, 'w').write(txt)
        sh('git -C /repo checkout -- . && git -C /repo clean -fdq pcbasic')
        # regenerate gen files from the clean tree
        sh('cd /verif && ./check --setup > /dev/null 2>&1') if False else None
meta.update({'verified_by_coordinator': ran, 'confirmed': confirmed, 'checks_run_against_it': results,
             'detected': any(r['exit'] != 0 for r in results.values()), 'date': time.strftime('%Y-%m-%d')})
json.dump(meta, open(os.path.join(dst, 'meta.json'), 'w'), indent=1)
print(json.dumps(results, indent=1)[:1500])
print('repo status:', sh('git -C /repo status --short').stdout.strip() or 'clean')
