#!/usr/bin/env python3
"""tools/seed_queue.py NAME...: for each seeded change NAME (e.g. C07d) wait until its deliverables exist in /tmp/seed-NAME-out
and its scratch worktree is gone, then run tools/try_seed.py on it (serially: /repo is patched and restored per seed).
Appends one line per seed to .work/seed_queue.log.  Gives up on a seed after --wait minutes (default 90)."""
import os, subprocess, sys, time
args = sys.argv[1:]
wait = 90
if args and args[0] == '--wait':
    wait = int(args[1]); args = args[2:]
pending = list(args)
t0 = time.time()
log = open('/verif/.work/seed_queue.log', 'a')
def ready(n):
    d = '/tmp/seed-%s-out' % n
    return all(os.path.exists(os.path.join(d, f)) for f in ('patch.diff', 'demo.py', 'meta.json')) and not os.path.isdir('/tmp/seed-%s' % n)
while pending and time.time() - t0 < wait * 60:
    for n in list(pending):
        if ready(n):
            time.sleep(20)      # let the tester finish writing
            # /repo is patched and restored per seed: one seed at a time across all queues
            r = subprocess.run('cd /verif && flock /verif/.work/repo.lock python3 tools/try_seed.py %s --name %s' % (n[:3], n), shell=True,
                               stdout=subprocess.PIPE, stderr=subprocess.STDOUT, universal_newlines=True)
            lines = [l.strip() for l in r.stdout.splitlines() if 'summary' in l or 'confirmed' in l.lower() or 'APPLY' in l]
            log.write('%s | %s\n' % (n, ' | '.join(lines)[:600])); log.flush()
            pending.remove(n)
            break
    else:
        time.sleep(30)
log.write('queue done; not processed: %s\n' % pending); log.flush()
