#!/usr/bin/env python3
"""Apply /verif/fixes/<id>.patch to /repo as one fix: commit (message = first line of <id>.md), after the baseline passes."""
import subprocess, sys, os
fid = sys.argv[1]
patch = '/verif/fixes/%s.patch' % fid
msg = open('/verif/fixes/%s.md' % fid).readline().strip()
assert msg.startswith('fix:'), msg
def sh(cmd, **kw):
    return subprocess.run(cmd, shell=True, stdout=subprocess.PIPE, stderr=subprocess.STDOUT, universal_newlines=True, **kw)
r = sh('git -C /repo status --short')
if r.stdout.strip():
    print('repo not clean:', r.stdout); sys.exit(1)
r = sh('git -C /repo apply --check %s' % patch)
if r.returncode:
    r3 = sh('git -C /repo apply -3 %s' % patch)
    if r3.returncode:
        print('patch does not apply:', r.stdout, r3.stdout); sh('git -C /repo checkout -- .'); sys.exit(1)
else:
    sh('git -C /repo apply %s' % patch)
print(sh('git -C /repo diff --stat').stdout)
b = sh('python3 /verif/tools/baseline_check.py /repo')
print(b.stdout[-400:])
if b.returncode:
    sh('git -C /repo checkout -- .'); print('BASELINE FAILED, reverted'); sys.exit(1)
open('/tmp/fixmsg.txt', 'w').write(msg + '\n')
r = sh('git -C /repo add -A && git -C /repo commit -q -F /tmp/fixmsg.txt && git -C /repo log --oneline | head -1')
print(r.stdout)
