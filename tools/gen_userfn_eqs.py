#!/usr/bin/env python3
"""Regenerate the unfolding equations of the evaluator in theories/proofs/UserFn_proofs.v from the text of
theories/model/UserFn.v (they are proved by reflexivity, so a wrong copy cannot be accepted)."""
import re, sys
src = open('/verif/theories/model/UserFn.v').read().split('\n')
def find(prefix):
    for i, l in enumerate(src):
        if l.startswith(prefix):
            return i + 1
    raise SystemExit('not found: ' + prefix)
def body(start_line, end_line):
    txt = '\n'.join(src[start_line - 1:end_line])
    i = txt.index("| S fuel' =>") + len("| S fuel' =>")
    j = txt.rindex("\n  end")
    b = txt[i:j]
    for f in ('parse', 'units', 'unit_', 'left_right'):
        b = b.replace("%s fuel' " % f, "%s c fuel " % f)
    b = b.replace("(parse fuel')", "(parse c fuel)")
    b = b.replace("add_objs st4", "add_objs c st4").replace("evaluate (parse c fuel)", "evaluate c (parse c fuel)")
    return re.sub(r'\(\*.*?\*\)', '', b, flags=re.S)
p, u, n, l, e = find('Fixpoint parse'), find('with units'), find('with unit_'), find('with left_right'), find('(* ---------- statements')
out = []
out.append("Lemma parse_S fuel e st : parse c (S fuel) e st =\n" + body(p, u - 2) + ".\nProof. reflexivity. Qed.\n")
out.append("Lemma units_S fuel e st : units c (S fuel) e st =\n" + body(u, n - 2) + ".\nProof. reflexivity. Qed.\n")
out.append("Lemma unit_S fuel e st : unit_ c (S fuel) e st =\n" + body(n, l - 2) + ".\nProof. reflexivity. Qed.\n")
out.append("Lemma left_right_S fuel e1 n rj st : left_right c (S fuel) e1 n rj st =\n" + body(l, e - 2) + ".\nProof. reflexivity. Qed.\n")
f = '/verif/theories/proofs/UserFn_proofs.v'
s = open(f).read()
a = s.index("(* ---------- unfolding equations of the evaluator")
b = s.index("(* ---------- the evaluator, by induction on the fuel ---------- *)")
head = "(* ---------- unfolding equations of the evaluator (copied from model/UserFn.v by tools/gen_userfn_eqs.py, proved by reflexivity) ---------- *)\n"
open(f, 'w').write(s[:a] + head + '\n'.join(out) + '\n' + s[b:])
