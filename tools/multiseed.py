#!/usr/bin/env python3
"""tools/multiseed.py [--seeds 1,2,3] [--par 4] [Cxx ...]: run quick checks of the given (default: all claimed) properties
with several seeds on the unchanged tree and report every non-zero exit (seed-dependent false alarms or defects)."""
import json, subprocess, sys, os
from concurrent.futures import ThreadPoolExecutor
args = sys.argv[1:]
seeds = [1, 2, 3]; par = 4; props = []
i = 0
while i < len(args):
    if args[i] == '--seeds': seeds = [int(x) for x in args[i+1].split(',')]; i += 2
    elif args[i] == '--par': par = int(args[i+1]); i += 2
    else: props.append(args[i]); i += 1
if not props:
    props = [c['property_id'] for c in json.load(open('/verif/MANIFEST.json'))['checks']]
def one(job):
    c, s = job
    env = dict(os.environ, VERIF_SEED=str(s))
    p = subprocess.run('cd %s && ./check %s' % (os.path.dirname(os.path.dirname(os.path.abspath(__file__))), c), shell=True, env=env, stdout=subprocess.PIPE, stderr=subprocess.STDOUT, universal_newlines=True)
    summ = [l for l in p.stdout.splitlines() if 'tier=' in l]
    return c, s, p.returncode, (summ[-1] if summ else p.stdout[-300:])
# one property at a time per worker so that evidence/gen files of one property are not raced
jobs = [(c, s) for s in seeds for c in props]
bad = []
with ThreadPoolExecutor(max_workers=par) as ex:
    for c, s, rc, summ in ex.map(one, jobs):
        print(c, 'seed', s, 'exit', rc, summ[:160]); sys.stdout.flush()
        if rc: bad.append((c, s))
print('NONZERO:', bad)
