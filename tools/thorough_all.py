#!/usr/bin/env python3
"""Run the thorough tier of every claimed check (from this copy of /verif), a few in parallel; print one line per check."""
import json, os, subprocess, sys, time
from concurrent.futures import ThreadPoolExecutor
HERE = os.path.dirname(os.path.dirname(os.path.abspath(__file__)))
par = int(sys.argv[1]) if len(sys.argv) > 1 else 3
props = sys.argv[2:] or [c['property_id'] for c in json.load(open(HERE + '/MANIFEST.json'))['checks']]
def one(c):
    t0 = time.time()
    p = subprocess.run('cd %s && ./check %s --tier thorough' % (HERE, c), shell=True, stdout=subprocess.PIPE, stderr=subprocess.STDOUT, universal_newlines=True)
    summ = [l for l in p.stdout.splitlines() if 'tier=' in l]
    open('%s/.work/thorough_%s.log' % (HERE, c), 'w').write(p.stdout)
    return c, p.returncode, time.time() - t0, (summ[-1] if summ else p.stdout[-400:])
os.makedirs(HERE + '/.work', exist_ok=True)
with ThreadPoolExecutor(max_workers=par) as ex:
    for c, rc, wall, summ in ex.map(one, props):
        print('%s exit %d wall %.0fs %s' % (c, rc, wall, summ[:200])); sys.stdout.flush()
