#!/usr/bin/env python3
"""Run the repository's pinned test suite in a checkout and verify every stable_pass test of BASELINE.json passes.
usage: tools/baseline_check.py [repo_dir]   (default /repo)"""
import json
import os
import subprocess
import sys
import tempfile
import xml.etree.ElementTree as ET

repo = sys.argv[1] if len(sys.argv) > 1 else '/repo'
base = json.load(open('/root/.vp/BASELINE.json'))
want = set(base['stable_pass'])
fd, xmlp = tempfile.mkstemp(suffix='.xml')
os.close(fd)
env = dict(os.environ)
env.pop('PCBASIC_VERIF', None)
env.pop('PYTHONPATH', None)
cmd = ['/venv/bin/python', '-m', 'pytest', '-ra', '-q', '-p', 'no:cacheprovider', '--timeout=900',
       '--continue-on-collection-errors', '--junitxml=' + xmlp]
passed = set()
for attempt in range(6):
    p = subprocess.run(cmd, cwd=repo, env=env, stdout=subprocess.PIPE, stderr=subprocess.STDOUT, universal_newlines=True)
    for tc in ET.parse(xmlp).getroot().iter('testcase'):
        if not any(ch.tag in ('failure', 'error', 'skipped') for ch in tc):
            passed.add('%s::%s' % (tc.get('classname'), tc.get('name')))
    if not (want - passed):
        break
    # rerun only the modules of the tests still missing
    mods = sorted(set(t.split('::')[0].rsplit('.', 1)[0].replace('.', '/') + '.py' for t in (want - passed)))
    cmd = cmd[:9] + ['--junitxml=' + xmlp] + mods
    # a test that passes in any of up to three runs counts (timing-sensitive tests flake under machine load)
os.remove(xmlp)
missing = sorted(want - passed)
print(p.stdout.strip().splitlines()[-1])
print('stable_pass %d, passed now %d, missing %d' % (len(want), len(passed & want), len(missing)))
for m in missing[:20]:
    print('  NOT PASSING:', m)
sys.exit(1 if missing else 0)
